//! C07 — the native IcyDraw format is lossless.
//!
//! A case is a plain model of a document (`Doc`). The check builds an `icy_engine::Buffer` from it, saves it through
//! `Buffer::to_bytes("icy", lossles_output = true)`, loads it through `Buffer::from_bytes("x.icy", ..)` and compares
//! the loaded buffer field by field with what the *model* says (not with the engine object that was saved; the
//! built object is compared with the model first, a difference there is a harness bug and has its own key).
use icy_engine::{
    AttributedChar, BitFont, Buffer, BufferType, Color, FontMode, IceMode, Layer, Line, Mode, Palette, PaletteMode, Position, Role, SauceData, SauceString,
    SaveOptions, Sixel, TextAttribute, TextPane,
};
use icyv::proptest::collection::vec;
use icyv::proptest::prelude::*;
use icyv::util::pick;
use icyv::{Engine, PartCfg, Verdict};
use serde::{Deserialize, Serialize};
use std::collections::BTreeMap;
use std::path::Path;

const TRANSPARENT: u32 = 1 << 31;

// ------------------------------------------------------------------------------------------------ model

/// One cell of a layer row. `V(ch, fg, bg, attr, fp)`: `ch` is a Unicode scalar value, `fg`/`bg` colour numbers
/// (palette index, TRANSPARENT_COLOR = 1<<31, or 1<<31 | rgb), `attr` the flag bits 0..=9, `fp` a *selector* into the
/// document's font slot list (`pick(fp, slots.len())`), so that every referenced font page has a font by construction.
#[derive(Clone, Debug, Hash, PartialEq, Eq, Serialize, Deserialize)]
enum Cell {
    /// exactly `AttributedChar::invisible()`
    I,
    V(u32, u32, u32, u16, u16),
}

/// A row as stored in `Layer::lines[y].chars`. `pad`: 0 = as is (chars.len() may be < width), 1 = the rest of the
/// row is filled with short cells (full-width row, no terminator), 2 = the rest is allocated as invisible cells
/// (trailing invisible run inside the vector), 3 = rest invisible except a long cell in the last column (full-width row with a gap),
/// 4 = as 2 plus two visible cells stored beyond the layer width (over-long `Line::chars`, clipped by `Layer::get_char`).
#[derive(Clone, Debug, Hash, PartialEq, Eq, Serialize, Deserialize)]
struct Row {
    cells: Vec<Cell>,
    pad: u8,
}

#[derive(Clone, Debug, Hash, PartialEq, Eq, Serialize, Deserialize)]
struct ImageM {
    w: u16,
    h: u16,
    vscale: i32,
    hscale: i32,
    /// RGBA data = prng_bytes(seed, w*h*4)
    seed: u32,
}

#[derive(Clone, Debug, Hash, PartialEq, Eq, Serialize, Deserialize)]
struct LayerM {
    title: String,
    /// Some = Role::Image with exactly one sixel at position (0,0); None = Role::Normal
    image: Option<ImageM>,
    /// 0 normal, 1 chars, 2 attributes
    mode: u8,
    color: Option<(u8, u8, u8)>,
    /// bit0 visible, bit1 locked, bit2 position locked, bit3 has alpha channel, bit4 alpha channel locked
    flags: u8,
    transparency: u8,
    x: i32,
    y: i32,
    w: u16,
    h: u16,
    /// default font page: selector into the font slot list
    fp: u16,
    /// rows 0..rows.len() (rows beyond h and cells beyond w are not part of the layer)
    rows: Vec<Row>,
    /// a row placed at y = h-1 when h > rows.len()
    bottom: Option<Row>,
    /// allocate all h lines (as Layer::new does) instead of only the lines that carry cells
    alloc_all: bool,
    /// TRANSIENT STATE: a pending preview offset (Layer::set_preview_offset(Some(p))) while the document is saved;
    /// the document's offset stays (x, y) = Layer::get_base_offset()
    #[serde(default)]
    preview: Option<(i32, i32)>,
    /// how a Normal layer's content gets into the Layer: 0 = `lines` and properties assigned directly;
    /// 1 = Layer::new(title, (w, h)), set_offset, set_char for every visible cell, flags assigned AFTERWARDS;
    /// 2 = flags assigned FIRST, then set_offset / set_char, which obey them (a locked, hidden or alpha-locked layer stays empty,
    /// a position-locked layer stays at (0,0)): the resulting document is what the model predicts in `expected`
    #[serde(default)]
    route: u8,
}

#[derive(Clone, Debug, Hash, PartialEq, Eq, Serialize, Deserialize)]
enum FontKind {
    /// BitFont::from_ansi_font_page(n)
    Builtin(u8),
    /// glyph bytes = prng_bytes(seed, glyphs*h); glyphs = 512 if big else 256
    Custom { name: String, w: u8, h: u8, big: bool, seed: u32 },
    /// the glyphs of BitFont::from_ansi_font_page(page) under ANY name (the name is independent of the glyph data);
    /// edit = Some(seed): four glyph bytes chosen by the seed are redrawn (size and length unchanged)
    BuiltinAs { page: u8, name: String, edit: Option<u32> },
    /// CONSTRUCTION ROUTE "clone": a clone of the font object of an earlier slot (`of` = selector into [slot 0, earlier
    /// entries of `fonts`]; used in slot 0 it clones the stock font), then `edits` (glyph character, row, xor mask | 1) applied
    /// IN PLACE through get_glyph_mut. refresh = false leaves the cached BitFont::checksum of the original (stale), true calls
    /// calculate_checksum(). rename = Some(new name).
    CloneOf { of: u16, edits: Vec<(u8, u8, u8)>, rename: Option<String>, refresh: bool },
    /// built-in page edited in place, same conventions as CloneOf
    PageEdited { page: u8, edits: Vec<(u8, u8, u8)>, rename: Option<String>, refresh: bool },
    /// CONSTRUCTION ROUTE BitFont::from_bytes: fmt 0 = raw 256 x h bytes (8 x h), 1 = PSF1 (8 x h, 256/512 glyphs), 2 = PSF2 (w x h, 256/512);
    /// glyph bytes = fb_data(seed, ..)
    FromBytes { fmt: u8, name: String, w: u8, h: u8, big: bool, seed: u32 },
}

#[derive(Clone, Debug, Hash, PartialEq, Eq, Serialize, Deserialize)]
struct FontM {
    slot: u16,
    kind: FontKind,
}

#[derive(Clone, Debug, Hash, PartialEq, Eq, Serialize, Deserialize)]
enum PaletteM {
    /// Palette::dos_default() untouched
    Dos,
    /// the 16 DOS colours, other meta data
    DosRetitled { title: String, author: String, description: String },
    /// Palette::dos_default() (colours and meta data untouched) with colour names: (selector into the 16 colours, name)
    DosNamed { names: Vec<(u16, String)> },
    /// colours are 0xRRGGBB; names: (selector into colours, name)
    Custom { title: String, author: String, description: String, colors: Vec<u32>, names: Vec<(u16, String)> },
}

#[derive(Clone, Debug, Hash, PartialEq, Eq, Serialize, Deserialize)]
struct SauceM {
    title: String,
    author: String,
    group: String,
    comments: Vec<String>,
    letter_spacing: bool,
    aspect_ratio: bool,
    /// value of SauceData::use_ice in the saved document (the record's flag is written from the buffer's ice mode)
    use_ice: bool,
}

#[derive(Clone, Debug, Hash, PartialEq, Eq, Serialize, Deserialize)]
struct Doc {
    w: u16,
    h: u16,
    /// buffer type 0..=4, ice mode 0..=2, palette mode 0..=3, font mode 0..=3
    modes: (u8, u8, u8, u8),
    layers: Vec<LayerM>,
    palette: PaletteM,
    /// font in slot 0 (always present: the engine takes the cell size of the document from it)
    font0: FontKind,
    /// further slots (1..=300, strictly increasing)
    fonts: Vec<FontM>,
    sauce: Option<SauceM>,
    /// tag of the boundary generator ("" for ordinary documents)
    tag: String,
    /// TRANSIENT STATE: Some(k) = an overlay layer (Buffer::get_overlay_layer(k % layers)) with three visible cells exists while saving; it is not part of the document
    #[serde(default)]
    overlay: Option<u8>,
    /// SaveOptions besides lossles_output = true (see `save_options`): every combination still is the lossless save path
    #[serde(default)]
    opts: u16,
}

fn prng_bytes(seed: u32, n: usize) -> Vec<u8> {
    let mut s = (seed as u64).wrapping_mul(0x9E37_79B9_7F4A_7C15).wrapping_add(0x1234_5678_9ABC_DEF1);
    if s == 0 {
        s = 1;
    }
    (0..n)
        .map(|_| {
            s ^= s << 13;
            s ^= s >> 7;
            s ^= s << 17;
            (s >> 24) as u8
        })
        .collect()
}

impl Doc {
    fn slots(&self) -> Vec<usize> {
        let mut v = vec![0usize];
        v.extend(self.fonts.iter().map(|f| f.slot as usize));
        v
    }
}

// ------------------------------------------------------------------------------------------------ observation

type CellObs = Option<(u32, u32, u32, u16, usize)>;

#[derive(Clone, Debug, PartialEq)]
struct SixelObs {
    pos: (i32, i32),
    size: (i32, i32),
    vscale: i32,
    hscale: i32,
    data: Vec<u8>,
}

#[derive(Clone, Debug, PartialEq)]
struct LayerObs {
    title: String,
    role: u8,
    mode: u8,
    color: Option<(u8, u8, u8)>,
    flags: [bool; 5],
    transparency: u8,
    /// the layer's real offset (get_base_offset), never a pending preview offset
    offset: (i32, i32),
    /// a preview offset is pending (input class of the key only, never compared: the statement does not list it)
    preview_pending: bool,
    size: (i32, i32),
    font_page: usize,
    /// row-major w*h, None = invisible
    cells: Vec<CellObs>,
    sixels: Vec<SixelObs>,
}

#[derive(Clone, Debug, PartialEq)]
struct FontObs {
    name: String,
    size: (i32, i32),
    length: i32,
    /// glyph bytes of characters 0..length (None = no glyph)
    glyphs: Vec<Option<Vec<u8>>>,
}

#[derive(Clone, Debug, PartialEq)]
struct PalObs {
    title: String,
    author: String,
    description: String,
    colors: Vec<((u8, u8, u8), Option<String>)>,
}

#[derive(Clone, Debug, PartialEq)]
struct SauceObs {
    title: String,
    author: String,
    group: String,
    comments: Vec<String>,
    letter_spacing: bool,
    aspect_ratio: bool,
    use_ice: bool,
}

#[derive(Clone, Debug, PartialEq)]
struct Obs {
    size: (i32, i32),
    modes: (u8, u8, u8, u8),
    layers: Vec<LayerObs>,
    palette: PalObs,
    fonts: BTreeMap<usize, FontObs>,
    sauce: Option<SauceObs>,
}

fn font_obs(f: &BitFont) -> FontObs {
    let n = f.length.clamp(0, 4096);
    FontObs {
        name: f.name.clone(),
        size: (f.size.width, f.size.height),
        length: f.length,
        glyphs: (0..n as u32).map(|i| char::from_u32(i).and_then(|c| f.get_glyph(c)).map(|g| g.data.clone())).collect(),
    }
}

fn pal_obs(p: &Palette) -> PalObs {
    PalObs {
        title: p.title.clone(),
        author: p.author.clone(),
        description: p.description.clone(),
        colors: p.color_iter().map(|c| (c.get_rgb(), c.name.clone())).collect(),
    }
}

fn observe(buf: &Buffer) -> Obs {
    let layers = buf
        .layers
        .iter()
        .map(|l| {
            let (w, h) = (l.get_width(), l.get_height());
            let mut cells = Vec::new();
            if w > 0 && h > 0 && (w as i64) * (h as i64) <= 4_000_000 {
                cells.reserve((w * h) as usize);
                for y in 0..h {
                    for x in 0..w {
                        let c = l.get_char((x, y));
                        cells.push(if c.is_visible() {
                            Some((c.ch as u32, c.attribute.get_foreground(), c.attribute.get_background(), c.attribute.attr, c.get_font_page()))
                        } else {
                            None
                        });
                    }
                }
            }
            LayerObs {
                title: l.properties.title.clone(),
                role: match l.role {
                    Role::Normal => 0,
                    Role::Image => 1,
                    Role::PastePreview => 2,
                    Role::PasteImage => 3,
                },
                mode: match l.properties.mode {
                    Mode::Normal => 0,
                    Mode::Chars => 1,
                    Mode::Attributes => 2,
                },
                color: l.properties.color.as_ref().map(|c| c.get_rgb()),
                flags: [
                    l.properties.is_visible,
                    l.properties.is_locked,
                    l.properties.is_position_locked,
                    l.properties.has_alpha_channel,
                    l.properties.is_alpha_channel_locked,
                ],
                transparency: l.transparency,
                offset: (l.get_base_offset().x, l.get_base_offset().y),
                preview_pending: l.get_preview_offset().is_some(),
                size: (w, h),
                font_page: l.default_font_page,
                cells,
                sixels: l
                    .sixels
                    .iter()
                    .map(|s| SixelObs {
                        pos: (s.position.x, s.position.y),
                        size: (s.get_width(), s.get_height()),
                        vscale: s.vertical_scale,
                        hscale: s.horizontal_scale,
                        data: s.picture_data.clone(),
                    })
                    .collect(),
            }
        })
        .collect();
    let mut fonts = BTreeMap::new();
    for (k, f) in buf.font_iter() {
        fonts.insert(*k, font_obs(f));
    }
    Obs {
        size: (buf.get_width(), buf.get_height()),
        modes: (
            match buf.buffer_type {
                BufferType::Unicode => 0,
                BufferType::CP437 => 1,
                BufferType::Petscii => 2,
                BufferType::Atascii => 3,
                BufferType::Viewdata => 4,
            },
            match buf.ice_mode {
                IceMode::Unlimited => 0,
                IceMode::Blink => 1,
                IceMode::Ice => 2,
            },
            match buf.palette_mode {
                PaletteMode::RGB => 0,
                PaletteMode::Fixed16 => 1,
                PaletteMode::Free8 => 2,
                PaletteMode::Free16 => 3,
            },
            match buf.font_mode {
                FontMode::Unlimited => 0,
                FontMode::Sauce => 1,
                FontMode::Single => 2,
                FontMode::FixedSize => 3,
            },
        ),
        layers,
        palette: pal_obs(&buf.palette),
        fonts,
        sauce: buf.get_sauce().as_ref().map(|s| SauceObs {
            title: s.title.to_string(),
            author: s.author.to_string(),
            group: s.group.to_string(),
            comments: s.comments.iter().map(|c| c.to_string()).collect(),
            letter_spacing: s.use_letter_spacing,
            aspect_ratio: s.use_aspect_ratio,
            use_ice: s.use_ice,
        }),
    }
}

// ------------------------------------------------------------------------------------------------ model -> expected / engine objects

fn apply_edits(f: &mut BitFont, edits: &[(u8, u8, u8)], rename: &Option<String>, refresh: bool) {
    for (c, row, x) in edits {
        if let Some(g) = f.get_glyph_mut(char::from(*c)) {
            if !g.data.is_empty() {
                let i = *row as usize % g.data.len();
                g.data[i] ^= *x | 1;
            }
        }
    }
    if let Some(n) = rename {
        f.name = n.clone();
    }
    if refresh {
        f.calculate_checksum();
    }
}

/// glyph data of a FromBytes font; a raw font must not start with a PSF magic
fn fb_data(seed: u32, n: usize) -> Vec<u8> {
    let mut d = prng_bytes(seed, n);
    if let Some(b) = d.first_mut() {
        if *b == 0x36 || *b == 0x72 {
            *b ^= 1;
        }
    }
    d
}

fn fb_dims(fmt: u8, w: u8, big: bool) -> (usize, i32) {
    match fmt % 3 {
        0 => (256, 8),
        1 => (if big { 512 } else { 256 }, 8),
        _ => (if big { 512 } else { 256 }, w as i32),
    }
}

/// the font objects of the document in slot order (slot 0 first); clones refer to the objects built before them
fn make_fonts(doc: &Doc) -> Result<Vec<(usize, BitFont)>, String> {
    let mut out: Vec<(usize, BitFont)> = Vec::new();
    let kinds = std::iter::once((0usize, &doc.font0)).chain(doc.fonts.iter().map(|f| (f.slot as usize, &f.kind)));
    for (slot, k) in kinds {
        let f = match k {
            FontKind::CloneOf { of, edits, rename, refresh } => {
                let mut f = if out.is_empty() { BitFont::default() } else { out[pick(*of, out.len())].1.clone() };
                apply_edits(&mut f, edits, rename, *refresh);
                f
            }
            other => make_font(other)?,
        };
        out.push((slot, f));
    }
    Ok(out)
}

fn make_font(k: &FontKind) -> Result<BitFont, String> {
    match k {
        FontKind::CloneOf { .. } => Err("clone outside make_fonts".into()),
        FontKind::PageEdited { page, edits, rename, refresh } => {
            let mut f = BitFont::from_ansi_font_page(*page as usize).map_err(|e| format!("builtin font {page}: {e}"))?;
            apply_edits(&mut f, edits, rename, *refresh);
            Ok(f)
        }
        FontKind::FromBytes { fmt, name, w, h, big, seed } => {
            let (n, _) = fb_dims(*fmt, *w, *big);
            let glyphs = fb_data(*seed, n * *h as usize);
            let mut bytes = Vec::new();
            match fmt % 3 {
                0 => {}
                1 => bytes.extend([0x36, 0x04, u8::from(n == 512), *h]),
                _ => {
                    for v in [0x864a_b572u32, 0, 32, 0, n as u32, *h as u32, *h as u32, *w as u32] {
                        bytes.extend(v.to_le_bytes());
                    }
                }
            }
            bytes.extend(&glyphs);
            BitFont::from_bytes(name.clone(), &bytes).map_err(|e| format!("from_bytes route {fmt}: {e}"))
        }
        FontKind::Builtin(n) => BitFont::from_ansi_font_page(*n as usize).map_err(|e| format!("builtin font {n}: {e}")),
        FontKind::Custom { name, w, h, big, seed } => {
            let glyphs = if *big { 512 } else { 256 };
            let data = prng_bytes(*seed, glyphs * *h as usize);
            let mut f = BitFont::create_8(name.clone(), *w, *h, &data);
            if *big {
                f.length = 512;
                f.calculate_checksum();
            }
            Ok(f)
        }
        FontKind::BuiltinAs { page, name, edit } => {
            let mut f = BitFont::from_ansi_font_page(*page as usize).map_err(|e| format!("builtin font {page}: {e}"))?;
            f.name = name.clone();
            if let Some(seed) = edit {
                let r = prng_bytes(*seed, 12);
                for k in 0..4 {
                    if let Some(g) = f.get_glyph_mut(char::from(r[k * 3])) {
                        if !g.data.is_empty() {
                            let i = r[k * 3 + 1] as usize % g.data.len();
                            g.data[i] ^= r[k * 3 + 2] | 1;
                        }
                    }
                }
                f.calculate_checksum();
            }
            Ok(f)
        }
    }
}

/// expectation of one slot: always get_glyph over 0..length of the document's font object (never a cached field);
/// for fonts whose glyph bytes the model knows (Custom, FromBytes) directly from the model
fn expected_font(k: &FontKind, built: &BitFont) -> Result<FontObs, String> {
    match k {
        FontKind::Builtin(_) | FontKind::CloneOf { .. } | FontKind::PageEdited { .. } => Ok(font_obs(built)),
        FontKind::BuiltinAs { name, .. } => {
            let mut o = font_obs(built);
            o.name = name.clone();
            Ok(o)
        }
        FontKind::FromBytes { fmt, name, w, h, big, seed } => {
            let (n, width) = fb_dims(*fmt, *w, *big);
            Ok(FontObs {
                name: name.clone(),
                size: (width, *h as i32),
                length: n as i32,
                glyphs: fb_data(*seed, n * *h as usize).chunks(*h as usize).map(|c| Some(c.to_vec())).collect(),
            })
        }
        FontKind::Custom { name, w, h, big, seed } => {
            let glyphs = if *big { 512 } else { 256 };
            let data = prng_bytes(*seed, glyphs * *h as usize);
            Ok(FontObs {
                name: name.clone(),
                size: (*w as i32, *h as i32),
                length: glyphs as i32,
                glyphs: data.chunks(*h as usize).map(|c| Some(c.to_vec())).collect(),
            })
        }
    }
}

fn resolve_cell(c: &Cell, slots: &[usize]) -> CellObs {
    match c {
        Cell::I => None,
        Cell::V(ch, fg, bg, attr, fp) => Some((*ch, *fg, *bg, *attr, slots[pick(*fp, slots.len())])),
    }
}

/// the cells of a row as they are stored in `Line::chars` (length <= w, except pad 4: w + 2)
fn row_cells(r: &Row, w: usize, slots: &[usize]) -> Vec<CellObs> {
    let mut v: Vec<CellObs> = r.cells.iter().take(w).map(|c| resolve_cell(c, slots)).collect();
    match r.pad {
        1 => v.resize(w, Some(('x' as u32, 7, 0, 0, 0))),
        2 => v.resize(w, None),
        3 => {
            if v.len() < w {
                v.resize(w, None);
                v[w - 1] = Some((0x2588, 300, TRANSPARENT, 1, 0));
            }
        }
        4 => {
            // over-long line: two visible cells stored beyond the layer width (not part of the layer: get_char clips)
            v.resize(w, None);
            v.push(Some(('!' as u32, 4, 1, 0, 0)));
            v.push(Some((0x2591, 256, 1, 0, 0)));
        }
        _ => {}
    }
    v
}

/// stored lines of a layer: (line index -> stored cells); lines.len() = result.len()
fn layer_lines(l: &LayerM, slots: &[usize]) -> Vec<Vec<CellObs>> {
    let (w, h) = (l.w as usize, l.h as usize);
    let mut lines: Vec<Vec<CellObs>> = Vec::new();
    if l.image.is_some() {
        return lines;
    }
    for r in l.rows.iter().take(h) {
        lines.push(row_cells(r, w, slots));
    }
    if let Some(b) = &l.bottom {
        if h > lines.len() {
            lines.resize(h - 1, Vec::new());
            lines.push(row_cells(b, w, slots));
        }
    }
    if l.alloc_all && lines.len() < h {
        lines.resize(h, Vec::new());
    }
    lines
}

fn tame_trim(s: &str) -> String {
    s.trim_end_matches(' ').to_string()
}

fn expected(doc: &Doc) -> Result<Obs, String> {
    let slots = doc.slots();
    let mut layers = Vec::new();
    for l in &doc.layers {
        let (w, h) = (l.w as usize, l.h as usize);
        let lines = layer_lines(l, &slots);
        let mut cells = vec![None; w * h];
        for (y, line) in lines.iter().enumerate() {
            for (x, c) in line.iter().enumerate().take(w) {
                if let Some(v) = c {
                    if char::from_u32(v.0).is_none() {
                        return Err(format!("not a scalar value: {:#x}", v.0));
                    }
                }
                cells[y * w + x] = *c;
            }
        }
        let (locked, hidden, pos_locked, alpha_locked) = (l.flags & 2 != 0, l.flags & 1 == 0, l.flags & 4 != 0, l.flags & 8 != 0 && l.flags & 16 != 0);
        let drawn_under_flags = l.image.is_none() && l.route % 3 == 2;
        if drawn_under_flags && (locked || hidden || alpha_locked) {
            // Layer::set_char refuses: locked / invisible layer, or alpha locked and the target cell is still invisible
            cells.iter_mut().for_each(|c| *c = None);
        }
        let offset = if drawn_under_flags && pos_locked { (0, 0) } else { (l.x, l.y) };
        layers.push(LayerObs {
            title: l.title.clone(),
            role: u8::from(l.image.is_some()),
            mode: l.mode,
            color: l.color,
            flags: [l.flags & 1 != 0, l.flags & 2 != 0, l.flags & 4 != 0, l.flags & 8 != 0, l.flags & 16 != 0],
            transparency: l.transparency,
            offset,
            preview_pending: l.preview.is_some(),
            size: (w as i32, h as i32),
            font_page: slots[pick(l.fp, slots.len())],
            cells,
            sixels: l
                .image
                .iter()
                .map(|i| SixelObs {
                    pos: (0, 0),
                    size: (i.w as i32, i.h as i32),
                    vscale: i.vscale,
                    hscale: i.hscale,
                    data: prng_bytes(i.seed, i.w as usize * i.h as usize * 4),
                })
                .collect(),
        });
    }
    let dos = pal_obs(&Palette::dos_default());
    let palette = match &doc.palette {
        PaletteM::Dos => dos,
        PaletteM::DosRetitled { title, author, description } => PalObs { title: title.clone(), author: author.clone(), description: description.clone(), colors: dos.colors },
        PaletteM::DosNamed { names } => {
            let mut p = dos;
            for (sel, name) in names {
                if !name.is_empty() {
                    let i = pick(*sel, p.colors.len());
                    p.colors[i].1 = Some(name.clone());
                }
            }
            p
        }
        PaletteM::Custom { title, author, description, colors, names } => {
            let mut cols: Vec<((u8, u8, u8), Option<String>)> = colors.iter().map(|c| (((c >> 16) as u8, (c >> 8) as u8, *c as u8), None)).collect();
            for (sel, name) in names {
                if !cols.is_empty() && !name.is_empty() {
                    let i = pick(*sel, cols.len());
                    cols[i].1 = Some(name.clone());
                }
            }
            PalObs { title: title.clone(), author: author.clone(), description: description.clone(), colors: cols }
        }
    };
    let mut fonts = BTreeMap::new();
    let built = make_fonts(doc)?;
    let kinds = std::iter::once(&doc.font0).chain(doc.fonts.iter().map(|f| &f.kind));
    for (k, (slot, f)) in kinds.zip(built.iter()) {
        fonts.insert(*slot, expected_font(k, f)?);
    }
    Ok(Obs {
        size: (doc.w as i32, doc.h as i32),
        modes: doc.modes,
        layers,
        palette,
        fonts,
        sauce: doc.sauce.as_ref().map(|s| SauceObs {
            title: tame_trim(&s.title),
            author: tame_trim(&s.author),
            group: tame_trim(&s.group),
            comments: s.comments.iter().map(|c| tame_trim(c)).collect(),
            letter_spacing: s.letter_spacing,
            aspect_ratio: s.aspect_ratio,
            use_ice: s.use_ice,
        }),
    })
}

fn build(doc: &Doc) -> Result<Buffer, String> {
    let slots = doc.slots();
    let mut buf = Buffer::new((doc.w as i32, doc.h as i32));
    buf.is_terminal_buffer = false;
    buf.buffer_type = [BufferType::Unicode, BufferType::CP437, BufferType::Petscii, BufferType::Atascii, BufferType::Viewdata][doc.modes.0 as usize % 5];
    buf.ice_mode = [IceMode::Unlimited, IceMode::Blink, IceMode::Ice][doc.modes.1 as usize % 3];
    buf.palette_mode = [PaletteMode::RGB, PaletteMode::Fixed16, PaletteMode::Free8, PaletteMode::Free16][doc.modes.2 as usize % 4];
    buf.font_mode = [FontMode::Unlimited, FontMode::Sauce, FontMode::Single, FontMode::FixedSize][doc.modes.3 as usize % 4];

    buf.clear_font_table();
    for (slot, f) in make_fonts(doc)? {
        buf.set_font(slot, f);
    }

    match &doc.palette {
        PaletteM::Dos => {}
        PaletteM::DosRetitled { title, author, description } => {
            buf.palette.title = title.clone();
            buf.palette.author = author.clone();
            buf.palette.description = description.clone();
        }
        PaletteM::DosNamed { names } => {
            let d = Palette::dos_default();
            let mut cols: Vec<Color> = d.color_iter().cloned().collect();
            for (sel, name) in names {
                if !name.is_empty() {
                    let i = pick(*sel, cols.len());
                    cols[i].name = Some(name.clone());
                }
            }
            let mut p = Palette::from_slice(&cols);
            p.title = d.title.clone();
            p.author = d.author.clone();
            p.description = d.description.clone();
            buf.palette = p;
        }
        PaletteM::Custom { title, author, description, colors, names } => {
            let mut cols: Vec<Color> = colors.iter().map(|c| Color::new((c >> 16) as u8, (c >> 8) as u8, *c as u8)).collect();
            for (sel, name) in names {
                if !cols.is_empty() && !name.is_empty() {
                    let i = pick(*sel, cols.len());
                    cols[i].name = Some(name.clone());
                }
            }
            let mut p = Palette::from_slice(&cols);
            p.title = title.clone();
            p.author = author.clone();
            p.description = description.clone();
            buf.palette = p;
        }
    }

    buf.layers.clear();
    for l in &doc.layers {
        let to_char = |c: CellObs| match c {
            None => AttributedChar::invisible(),
            Some((ch, fg, bg, attr, fp)) => {
                let mut a = TextAttribute::new(fg, bg);
                a.attr = attr;
                a.set_font_page(fp);
                AttributedChar::new(char::from_u32(ch).unwrap_or('?'), a)
            }
        };
        let set_flags = |layer: &mut Layer| {
            layer.properties.is_visible = l.flags & 1 != 0;
            layer.properties.is_locked = l.flags & 2 != 0;
            layer.properties.is_position_locked = l.flags & 4 != 0;
            layer.properties.has_alpha_channel = l.flags & 8 != 0;
            layer.properties.is_alpha_channel_locked = l.flags & 16 != 0;
        };
        let route = if l.image.is_some() { 0 } else { l.route % 3 };
        let mut layer;
        if route == 0 {
            layer = Layer::new(l.title.clone(), (0, 0));
            layer.set_size((l.w as i32, l.h as i32));
            layer.lines = layer_lines(l, &slots).into_iter().map(|cells| Line { chars: cells.into_iter().map(to_char).collect() }).collect();
            layer.properties.offset = Position::new(l.x, l.y);
        } else {
            // through the editing API: allocated layer, set_offset, set_char
            layer = Layer::new(l.title.clone(), (l.w as i32, l.h as i32));
            if route == 2 {
                set_flags(&mut layer);
            }
            layer.set_offset((l.x, l.y));
            for (y, line) in layer_lines(l, &slots).into_iter().enumerate() {
                for (x, c) in line.into_iter().enumerate().take(l.w as usize) {
                    if c.is_some() {
                        layer.set_char((x as i32, y as i32), to_char(c));
                    }
                }
            }
        }
        if let Some(i) = &l.image {
            layer.role = Role::Image;
            layer.sixels.push(Sixel::from_data((i.w as i32, i.h as i32), i.vscale, i.hscale, prng_bytes(i.seed, i.w as usize * i.h as usize * 4)));
        }
        layer.transparency = l.transparency;
        layer.default_font_page = slots[pick(l.fp, slots.len())];
        layer.properties.mode = [Mode::Normal, Mode::Chars, Mode::Attributes][l.mode as usize % 3];
        layer.properties.color = l.color.map(|(r, g, b)| Color::new(r, g, b));
        set_flags(&mut layer);
        if let Some((px, py)) = l.preview {
            layer.set_preview_offset(Some(Position::new(px, py)));
        }
        buf.layers.push(layer);
    }
    if let Some(k) = doc.overlay {
        if !buf.layers.is_empty() {
            let idx = k as usize % buf.layers.len();
            if let Some(o) = buf.get_overlay_layer(idx) {
                o.set_char((0, 0), AttributedChar::new('O', TextAttribute::new(14, 4)));
                o.set_char((1, 0), AttributedChar::new('\u{2593}', TextAttribute::new(300, 1)));
                o.set_char((0, 1), AttributedChar::new('v', TextAttribute::new(TRANSPARENT, 2)));
            }
        }
    }

    if let Some(s) = &doc.sauce {
        let sd = SauceData {
            title: SauceString::from(s.title.clone()),
            author: SauceString::from(s.author.clone()),
            group: SauceString::from(s.group.clone()),
            comments: s.comments.iter().map(|c| SauceString::from(c.clone())).collect(),
            use_letter_spacing: s.letter_spacing,
            use_aspect_ratio: s.aspect_ratio,
            use_ice: s.use_ice,
            buffer_size: icy_engine::Size::new(doc.w as i32, doc.h as i32),
            ..Default::default()
        };
        buf.set_sauce(Some(sd), false);
    }
    Ok(buf)
}

// ------------------------------------------------------------------------------------------------ comparison

fn cell_kind(c: &CellObs) -> &'static str {
    match c {
        None => "invisible",
        Some((ch, fg, bg, _, fp)) => {
            if *ch > 255 || *fg > 255 || *bg > 255 || *fp > 255 {
                "long"
            } else {
                "short"
            }
        }
    }
}

fn col_class(c: u32) -> &'static str {
    if c == TRANSPARENT {
        "transparent"
    } else if c & TRANSPARENT != 0 {
        "rgb"
    } else if c > 255 {
        "index>255"
    } else {
        "index<=255"
    }
}

fn ch_class(c: u32) -> &'static str {
    if c > 0xFFFF {
        "astral"
    } else if c > 255 {
        "bmp>255"
    } else {
        "<=255"
    }
}

fn short(s: &str) -> String {
    let mut t: String = s.chars().take(80).collect();
    if t.len() < s.len() {
        t.push('…');
    }
    format!("{t:?}")
}

/// all differences between what the model says and what a buffer holds: (key, message). `loaded` = false skips the
/// SAUCE ice flag (the record's flag is derived from the buffer's ice mode, see `expected_after_load`).
fn diff(exp: &Obs, got: &Obs, out: &mut Vec<(String, String)>) {
    let mut push = |k: String, m: String| {
        if !out.iter().any(|(k2, _)| *k2 == k) {
            out.push((k, m));
        }
    };
    if exp.size != got.size {
        push("buffer.size".into(), format!("buffer size {:?} became {:?}", exp.size, got.size));
    }
    for (name, e, g) in [
        ("buffer.type", exp.modes.0, got.modes.0),
        ("buffer.ice_mode", exp.modes.1, got.modes.1),
        ("buffer.palette_mode", exp.modes.2, got.modes.2),
        ("buffer.font_mode", exp.modes.3, got.modes.3),
    ] {
        if e != g {
            push(name.into(), format!("{name} {e} became {g}"));
        }
    }
    if exp.layers.len() != got.layers.len() {
        push("layer.count".into(), format!("{} layers became {}", exp.layers.len(), got.layers.len()));
    }
    for (i, (e, g)) in exp.layers.iter().zip(got.layers.iter()).enumerate() {
        let role = if e.role == 1 { "image" } else { "normal" };
        if e.title != g.title {
            push("layer.title".into(), format!("layer {i}: title {} became {}", short(&e.title), short(&g.title)));
        }
        if e.role != g.role {
            push(format!("layer.role|{role}"), format!("layer {i}: role {} became {}", e.role, g.role));
        }
        if e.mode != g.mode {
            push("layer.mode".into(), format!("layer {i}: mode {} became {}", e.mode, g.mode));
        }
        if e.color != g.color {
            push(
                format!("layer.color|{}", if e.color.is_some() { "some" } else { "none" }),
                format!("layer {i}: colour tag {:?} became {:?}", e.color, g.color),
            );
        }
        for (b, name) in ["visible", "locked", "position_locked", "has_alpha", "alpha_locked"].iter().enumerate() {
            if e.flags[b] != g.flags[b] {
                push(format!("layer.flag.{name}"), format!("layer {i}: flag {name} {} became {} (all flags {:?} -> {:?})", e.flags[b], g.flags[b], e.flags, g.flags));
            }
        }
        if e.transparency != g.transparency {
            push("layer.transparency".into(), format!("layer {i}: transparency {} became {}", e.transparency, g.transparency));
        }
        if e.offset != g.offset {
push(
                if e.preview_pending { "layer.offset|preview_pending".to_string() } else { "layer.offset".to_string() },
                format!("layer {i}: offset {:?} became {:?}{}", e.offset, g.offset, if e.preview_pending { " (a preview offset was pending while saving)" } else { "" }),
            );
        }
        if e.size != g.size {
            push(format!("layer.size|{role}"), format!("layer {i}: size {:?} became {:?}", e.size, g.size));
        }
        if e.font_page != g.font_page {
            push("layer.font_page".into(), format!("layer {i}: default font page {} became {}", e.font_page, g.font_page));
        }
        if e.size == g.size && e.cells.len() == g.cells.len() {
            let w = e.size.0.max(1) as usize;
            for (n, (ce, cg)) in e.cells.iter().zip(g.cells.iter()).enumerate() {
                if ce == cg {
                    continue;
                }
                let kind = cell_kind(ce);
                let at = format!("layer {i} ({role}, {}x{}) cell ({},{})", e.size.0, e.size.1, n % w, n / w);
                let (k, m) = match (ce, cg) {
                    (None, Some(g)) => ("cell.invisible.became_visible".to_string(), format!("{at}: invisible became {g:?}")),
                    (Some(e), None) => ("cell.visible.became_invisible".to_string(), format!("{at}: {kind} cell {e:?} became invisible")),
                    (Some(e), Some(g)) => {
                        if e.0 != g.0 {
                            (format!("cell.{kind}.ch"), format!("{at}: char {:#x} ({}) became {:#x} (cell {e:?} -> {g:?})", e.0, ch_class(e.0), g.0))
                        } else if e.1 != g.1 {
                            (format!("cell.{kind}.fg"), format!("{at}: fg {:#x} ({}) became {:#x} (cell {e:?} -> {g:?})", e.1, col_class(e.1), g.1))
                        } else if e.2 != g.2 {
                            (format!("cell.{kind}.bg"), format!("{at}: bg {:#x} ({}) became {:#x} (cell {e:?} -> {g:?})", e.2, col_class(e.2), g.2))
                        } else if e.3 != g.3 {
                            (format!("cell.{kind}.attr"), format!("{at}: attr {:#06x} became {:#06x} (cell {e:?} -> {g:?})", e.3, g.3))
                        } else {
                            (format!("cell.{kind}.font_page"), format!("{at}: font page {} became {} (cell {e:?} -> {g:?})", e.4, g.4))
                        }
                    }
                    (None, None) => unreachable!(),
                };
                push(k, m);
                break; // first differing cell of the layer names the class
            }
        }
        if e.sixels.len() != g.sixels.len() {
            push(format!("image.count|{role}"), format!("layer {i}: {} sixels became {}", e.sixels.len(), g.sixels.len()));
        }
        for (se, sg) in e.sixels.iter().zip(g.sixels.iter()) {
            if se.size != sg.size {
                push("image.size".into(), format!("layer {i}: image size {:?} became {:?}", se.size, sg.size));
            }
            if (se.vscale, se.hscale) != (sg.vscale, sg.hscale) {
                push("image.scale".into(), format!("layer {i}: image scale (v,h) {:?} became {:?}", (se.vscale, se.hscale), (sg.vscale, sg.hscale)));
            }
            if se.pos != sg.pos {
                push("image.position".into(), format!("layer {i}: image position {:?} became {:?}", se.pos, sg.pos));
            }
            if se.data != sg.data {
                let first = se.data.iter().zip(sg.data.iter()).position(|(a, b)| a != b);
                push("image.data".into(), format!("layer {i}: pixel data differs ({} bytes -> {} bytes, first difference at {first:?})", se.data.len(), sg.data.len()));
            }
        }
    }
    // fonts
    for (slot, fe) in &exp.fonts {
        match got.fonts.get(slot) {
            None => push(format!("font_slot.missing|{}", if *slot > 255 { "slot>255" } else { "slot<=255" }), format!("font slot {slot} ({}) is gone", short(&fe.name))),
            Some(fg) => {
                if fe.name != fg.name {
                    push("font.name".into(), format!("font slot {slot}: name {} became {}", short(&fe.name), short(&fg.name)));
                }
                if fe.size != fg.size {
                    push(
                        format!("font.size|{}", if fe.size.0 == 8 { "width=8" } else { "width<8" }),
                        format!("font slot {slot}: size {:?} became {:?}", fe.size, fg.size),
                    );
                }
                if fe.length != fg.length {
                    push(format!("font.length|{}", fe.length), format!("font slot {slot}: length {} became {}", fe.length, fg.length));
                } else if fe.glyphs != fg.glyphs {
                    let first = fe.glyphs.iter().zip(fg.glyphs.iter()).position(|(a, b)| a != b);
                    push(format!("font.glyph|{}", fe.length), format!("font slot {slot}: glyph data differs, first at character {first:?}"));
                }
            }
        }
    }
    for slot in got.fonts.keys() {
        if !exp.fonts.contains_key(slot) {
            push("font_slot.invented".into(), format!("font slot {slot} appeared ({})", short(&got.fonts[slot].name)));
        }
    }
    // sauce
    match (&exp.sauce, &got.sauce) {
        (None, None) => {}
        (Some(_), None) => push("sauce.missing".into(), "SAUCE record is gone".into()),
        (None, Some(g)) => push("sauce.invented".into(), format!("a SAUCE record appeared: {g:?}")),
        (Some(e), Some(g)) => {
            if e.title != g.title {
                push("sauce.title".into(), format!("SAUCE title {} became {}", short(&e.title), short(&g.title)));
            }
            if e.author != g.author {
                push("sauce.author".into(), format!("SAUCE author {} became {}", short(&e.author), short(&g.author)));
            }
            if e.group != g.group {
                push("sauce.group".into(), format!("SAUCE group {} became {}", short(&e.group), short(&g.group)));
            }
            if e.comments != g.comments {
                let first = e.comments.iter().zip(g.comments.iter()).position(|(a, b)| a != b);
                push(
                    format!("sauce.comments|{}", if e.comments.len() != g.comments.len() { "count" } else { "text" }),
                    format!("SAUCE comments: {} lines became {} lines, first differing line {first:?}", e.comments.len(), g.comments.len()),
                );
            }
            if e.letter_spacing != g.letter_spacing {
                push("sauce.flags.letter_spacing".into(), format!("SAUCE letter spacing {} became {}", e.letter_spacing, g.letter_spacing));
            }
            if e.aspect_ratio != g.aspect_ratio {
                push("sauce.flags.aspect_ratio".into(), format!("SAUCE aspect ratio {} became {}", e.aspect_ratio, g.aspect_ratio));
            }
            if e.use_ice != g.use_ice {
                push("sauce.flags.ice".into(), format!("SAUCE ice flag: expected {} (from the buffer's ice mode), got {}", e.use_ice, g.use_ice));
            }
        }
    }
    // palette (last: its meta data defects have broad trigger conditions)
    let pclass = |p: &PalObs| {
        if p.colors.len() == 16 && p.colors.iter().map(|c| c.0).eq(pal_obs(&Palette::dos_default()).colors.iter().map(|c| c.0)) {
            "dos_colours"
        } else if p.colors.len() > 256 {
            "custom>256"
        } else {
            "custom"
        }
    };
    // meta data keys only distinguish the "colours equal the DOS default" shortcut of the writer
    let mclass = |p: &PalObs| if pclass(p) == "dos_colours" { "dos_colours" } else { "custom" };
    if exp.palette.colors.len() != got.palette.colors.len() {
        push(format!("palette.len|{}", pclass(&exp.palette)), format!("palette of {} colours became {}", exp.palette.colors.len(), got.palette.colors.len()));
    } else {
        if let Some(i) = (0..exp.palette.colors.len()).find(|i| exp.palette.colors[*i].0 != got.palette.colors[*i].0) {
            push(format!("palette.color|{}", pclass(&exp.palette)), format!("palette colour {i}: {:?} became {:?}", exp.palette.colors[i].0, got.palette.colors[i].0));
        }
        if let Some(i) = (0..exp.palette.colors.len()).find(|i| exp.palette.colors[*i].1 != got.palette.colors[*i].1) {
            push(format!("palette.color_name|{}", mclass(&exp.palette)), format!("palette colour {i}: name {:?} became {:?}", exp.palette.colors[i].1, got.palette.colors[i].1));
        }
    }
    for (name, e, g) in [
        ("palette.title", &exp.palette.title, &got.palette.title),
        ("palette.author", &exp.palette.author, &got.palette.author),
        ("palette.description", &exp.palette.description, &got.palette.description),
    ] {
        if e != g {
            push(format!("{name}|{}", mclass(&exp.palette)), format!("{name} {} became {}", short(e), short(g)));
        }
    }
}

/// SaveOptions of the lossless save path: lossles_output = true, every other field from the bits of `o`
fn save_options(o: u16) -> SaveOptions {
    let bit = |b: u16| o & (1 << b) != 0;
    let mut opts = SaveOptions::new();
    opts.lossles_output = true;
    opts.compress = !bit(0);
    opts.save_sauce = bit(1);
    opts.modern_terminal_output = bit(2);
    opts.use_cursor_forward = !bit(3);
    opts.use_repeat_sequences = bit(4);
    opts.preserve_line_length = bit(5);
    opts.longer_terminal_output = bit(6);
    opts.use_extended_colors = !bit(7);
    opts.normalize_whitespaces = !bit(8);
    opts.output_line_length = if bit(9) { Some(1) } else { None };
    opts.screen_preparation = [icy_engine::ScreenPreperation::None, icy_engine::ScreenPreperation::ClearScreen, icy_engine::ScreenPreperation::Home, icy_engine::ScreenPreperation::None][(o >> 10) as usize & 3];
    opts.control_char_handling =
        [icy_engine::ControlCharHandling::Ignore, icy_engine::ControlCharHandling::IcyTerm, icy_engine::ControlCharHandling::FilterOut, icy_engine::ControlCharHandling::Ignore][(o >> 12) as usize & 3];
    opts.skip_lines = if bit(14) { Some(vec![0, 1]) } else { None };
    opts
}

fn strip_digits(s: &str) -> String {
    let t: String = s.chars().filter(|c| !c.is_ascii_digit()).take(70).collect();
    t.trim().to_string()
}

struct Features {
    layers: usize,
    long_cells: usize,
    short_cells: usize,
    terminators: usize,
    images: usize,
}

fn features(exp: &Obs) -> Features {
    let mut f = Features { layers: exp.layers.len(), long_cells: 0, short_cells: 0, terminators: 0, images: 0 };
    for l in &exp.layers {
        if l.role == 1 {
            f.images += 1;
            continue;
        }
        let (w, h) = (l.size.0 as usize, l.size.1 as usize);
        for y in 0..h {
            let row = &l.cells[y * w..(y + 1) * w];
            let real = row.iter().rposition(|c| c.is_some()).map(|p| p + 1).unwrap_or(0);
            if w > real {
                f.terminators += 1;
            }
            for c in row {
                match cell_kind(c) {
                    "long" => f.long_cells += 1,
                    "short" => f.short_cells += 1,
                    _ => {}
                }
            }
        }
    }
    f
}

fn roundtrip(doc: &Doc) -> Result<(Obs, Vec<(String, String)>), Verdict> {
    let mut exp = match expected(doc) {
        Ok(e) => e,
        Err(e) => return Err(Verdict::discard(format!("model outside the domain: {e}"))),
    };
    let buf = match build(doc) {
        Ok(b) => b,
        Err(e) => return Err(Verdict::discard(format!("cannot build: {e}"))),
    };
    // the harness' own builder must have produced what the model says
    let built = observe(&buf);
    let mut d0 = Vec::new();
    diff(&exp, &built, &mut d0);
    if let Some((k, m)) = d0.first() {
        return Err(Verdict::fail(format!("harness.build_mismatch.{k}"), format!("the document built by the check differs from its model: {m}")));
    }
    // the SAUCE record's ice flag is written from the buffer's ice mode (design: compared accordingly)
    if let Some(s) = &mut exp.sauce {
        s.use_ice = doc.modes.1 == 2;
    }
    let opts = save_options(doc.opts);
    let bytes = match buf.to_bytes("icy", &opts) {
        Ok(b) => b,
        Err(e) => return Err(Verdict::fail(format!("save.error|{}", strip_digits(&e.to_string())), format!("Buffer::to_bytes(\"icy\", lossless) failed: {e}"))),
    };
    let loaded = match Buffer::from_bytes(Path::new("x.icy"), false, &bytes) {
        Ok(b) => b,
        Err(e) => {
            return Err(Verdict::fail(
                format!("load.error|{}", strip_digits(&e.to_string())),
                format!("Buffer::from_bytes(\"x.icy\") of the {} bytes just saved failed: {e}", bytes.len()),
            ))
        }
    };
    let got = observe(&loaded);
    let mut d = Vec::new();
    diff(&exp, &got, &mut d);
    Ok((exp, d))
}

fn verdict_of_diffs(d: &[(String, String)]) -> Option<Verdict> {
    let (k, m) = d.first()?;
    let others: Vec<&str> = d.iter().skip(1).map(|(k, _)| k.as_str()).collect();
    let msg = if others.is_empty() { m.clone() } else { format!("{m}  [further differences in this case: {}]", others.join(", ")) };
    Some(Verdict::fail(k.clone(), msg))
}

fn check(doc: &Doc) -> Verdict {
    let (exp, d) = match roundtrip(doc) {
        Ok(x) => x,
        Err(v) => return v,
    };
    if let Some(v) = verdict_of_diffs(&d) {
        return v;
    }
    let f = features(&exp);
    let nontrivial = f.layers >= 2 && f.long_cells >= 1 && f.terminators >= 1;
    let class = if !doc.tag.is_empty() {
        format!("boundary:{}", doc.tag)
    } else {
        format!(
            "{}|{}|{}",
            if f.layers >= 2 { "layers>=2" } else { "layers=1" },
            if f.long_cells > 0 {
                "long_cells"
            } else if f.short_cells > 0 {
                "short_cells_only"
            } else {
                "no_cells"
            },
            match (f.images > 0, doc.sauce.is_some()) {
                (true, true) => "image+sauce",
                (true, false) => "image",
                (false, true) => "sauce",
                (false, false) => "plain",
            }
        )
    };
    Verdict::pass(nontrivial, class)
}

/// oversized documents (outside the quantifier): reported in the class histogram only
fn check_info(doc: &Doc) -> Verdict {
    let v = check_info_inner(doc);
    if std::env::var_os("C07_INFO_PRINT").is_some() {
        eprintln!("oversize_info {}: {v:?}", doc.tag);
    }
    v
}

fn check_info_inner(doc: &Doc) -> Verdict {
    match icyv::panics::guarded(|| roundtrip(doc)) {
        Ok(Ok((_, d))) => match d.first() {
            None => Verdict::pass(false, format!("info:{}:roundtrip_ok", doc.tag)),
            Some((k, _)) => Verdict::pass(false, format!("info:{}:DIFFERS:{k}", doc.tag)),
        },
        Ok(Err(Verdict::Fail { key, .. })) => Verdict::pass(false, format!("info:{}:FAILS:{key}", doc.tag)),
        Ok(Err(v)) => v,
        Err((sig, _)) => Verdict::pass(false, format!("info:{}:PANICS:{}", doc.tag, sig.chars().take(120).collect::<String>())),
    }
}

// ------------------------------------------------------------------------------------------------ generators

fn ch_short() -> BoxedStrategy<u32> {
    prop_oneof![6 => 0x20u32..=0x7E, 2 => 0u32..=255, 1 => Just(0u32), 1 => Just(255u32), 1 => Just(0x1Bu32)].boxed()
}
fn ch_long() -> BoxedStrategy<u32> {
    prop_oneof![
        3 => 256u32..=0x2FFF,
        2 => 0x3000u32..=0xD7FF,
        1 => 0xE000u32..=0xFFFF,
        2 => 0x1_0000u32..=0x10_FFFF,
        1 => Just(256u32),
        1 => Just(0xD7FFu32),
        1 => Just(0xE000u32),
        1 => Just(0xFFFFu32),
        1 => Just(0x10_FFFFu32),
    ]
    .boxed()
}
fn col_short() -> BoxedStrategy<u32> {
    prop_oneof![6 => 0u32..16, 2 => 0u32..=255, 1 => Just(255u32)].boxed()
}
fn col_long() -> BoxedStrategy<u32> {
    prop_oneof![
        3 => 256u32..=299,
        1 => Just(256u32),
        2 => Just(TRANSPARENT),
        2 => (0u32..=0xFF_FFFF).prop_map(|c| c | TRANSPARENT),
        1 => Just(u32::MAX),
        1 => 300u32..0x7FFF_FFFF,
    ]
    .boxed()
}
fn attr_bits() -> BoxedStrategy<u16> {
    prop_oneof![4 => Just(0u16), 3 => (0u32..10).prop_map(|b| 1u16 << b), 2 => 0u16..=0x3FF, 1 => Just(0x3FFu16)].boxed()
}
fn fp_sel() -> BoxedStrategy<u16> {
    prop_oneof![4 => Just(0u16), 3 => any::<u16>(), 1 => Just(u16::MAX)].boxed()
}

fn cell() -> BoxedStrategy<Cell> {
    let v = |c: BoxedStrategy<u32>, f: BoxedStrategy<u32>, b: BoxedStrategy<u32>| (c, f, b, attr_bits(), fp_sel()).prop_map(|(c, f, b, a, p)| Cell::V(c, f, b, a, p));
    prop_oneof![
        3 => Just(Cell::I),
        6 => v(ch_short(), col_short(), col_short()),
        // equality-blind cells: blank / default-attribute cells (AttributedChar's PartialEq ignores the font page) in every font page
        2 => (prop_oneof![3 => Just(0x20u32), 1 => Just(0u32), 1 => Just(255u32), 1 => Just(0x41u32)], prop_oneof![4 => Just((7u32, 0u32)), 1 => Just((0u32, 0u32)), 1 => Just((7u32, 7u32))], prop_oneof![4 => Just(0u16), 1 => Just(1u16)], fp_sel())
            .prop_map(|(c, (f, b), a, p)| Cell::V(c, f, b, a, p)),
        1 => v(ch_long(), col_short(), col_short()),
        1 => v(ch_short(), col_long(), col_short()),
        1 => v(ch_short(), col_short(), col_long()),
        1 => v(ch_long(), col_long(), col_long()),
    ]
    .boxed()
}

fn row(max_len: usize) -> BoxedStrategy<Row> {
    (vec(cell(), 0..=max_len), prop_oneof![10 => Just(0u8), 4 => Just(1u8), 4 => Just(2u8), 2 => Just(3u8), 1 => Just(4u8)]).prop_map(|(cells, pad)| Row { cells, pad }).boxed()
}

fn uni_string(max: usize) -> BoxedStrategy<String> {
    let m = max.max(1);
    prop_oneof![
        2 => Just(String::new()),
        4 => vec(0x20u8..=0x7E, 1..=m.min(12)).prop_map(|v| v.into_iter().map(|b| b as char).collect::<String>()),
        3 => vec(icyv::proptest::char::any(), 0..=m.min(10)).prop_map(|v| v.into_iter().collect::<String>()),
        1 => vec(prop_oneof![Just('\u{10FFFF}'), Just('\u{1F600}'), Just('\0'), Just('\n'), Just('é'), Just('\u{FFFF}'), Just(' ')], 1..=6).prop_map(|v| v.into_iter().collect::<String>()),
        1 => vec(icyv::proptest::char::any(), m..=m).prop_map(|v| v.into_iter().collect::<String>()),
    ]
    .boxed()
}

/// single-line text without leading/trailing blanks for the text based palette block
fn tame(max: usize) -> BoxedStrategy<String> {
    const ALPHA: &[char] = &['a', 'b', 'Z', '0', '9', '_', '-', '.', ' ', 'é', 'λ', '█'];
    prop_oneof![
        2 => Just(String::new()),
        5 => vec(0usize..ALPHA.len(), 1..=max.max(1)).prop_map(|v| v.into_iter().map(|i| ALPHA[i]).collect::<String>().trim().to_string()),
    ]
    .boxed()
}

/// text that SAUCE can carry: printable ASCII and a few CP437 characters, no trailing blanks matter
fn sauce_text(max: usize) -> BoxedStrategy<String> {
    const EXTRA: &[char] = &['é', 'ä', '█', '░', '½', 'ÿ', '≈'];
    let ch = prop_oneof![8 => (0x20u8..=0x7E).prop_map(|b| b as char), 1 => (0usize..EXTRA.len()).prop_map(|i| EXTRA[i])];
    prop_oneof![2 => vec(ch.clone(), 0..=0), 5 => vec(ch.clone(), 1..=max.min(12).max(1)), 2 => vec(ch.clone(), 0..=max), 1 => vec(ch, max..=max)]
        .prop_map(|v| v.into_iter().collect::<String>())
        .boxed()
}

fn offset() -> BoxedStrategy<i32> {
    prop_oneof![4 => Just(0i32), 4 => -4i32..=4, 2 => -50i32..=50, 1 => Just(-50i32), 1 => Just(50i32), 1 => Just(-1i32)].boxed()
}

fn image() -> BoxedStrategy<ImageM> {
    let dim = || prop_oneof![1 => Just(0u16), 6 => 1u16..=12, 3 => 1u16..=48].boxed();
    let scale = || prop_oneof![4 => Just(1i32), 2 => 0i32..=9, 1 => any::<i32>()].boxed();
    (dim(), dim(), scale(), scale(), any::<u32>()).prop_map(|(w, h, vscale, hscale, seed)| ImageM { w, h, vscale, hscale, seed }).boxed()
}

/// shape: 0 = size from the rows (+extra), 1 = zero width, 2 = zero height, 3 = 200x120, 4 = 200 x small, 5 = small x 120
fn layer(max_rows: usize, max_len: usize) -> BoxedStrategy<LayerM> {
    let head = (
        uni_string(40),
        prop_oneof![7 => Just(None), 1 => image().prop_map(Some)],
        0u8..3,
        prop_oneof![2 => Just(None), 1 => any::<(u8, u8, u8)>().prop_map(Some)],
        prop_oneof![3 => Just(1u8), 1 => Just(9u8), 4 => 0u8..32],
        prop_oneof![2 => Just(0u8), 1 => Just(255u8), 2 => any::<u8>()],
        offset(),
        offset(),
        fp_sel(),
    );
    let body = (
        vec(row(max_len), 0..=max_rows),
        prop_oneof![4 => Just(0u16), 3 => 0u16..=3, 1 => 0u16..=20],
        prop_oneof![4 => Just(0u16), 3 => 0u16..=3, 1 => 0u16..=20],
        prop_oneof![40 => Just(0u8), 2 => Just(1u8), 2 => Just(2u8), 1 => Just(3u8), 1 => Just(4u8), 1 => Just(5u8)],
        prop_oneof![4 => Just(None), 1 => row(max_len).prop_map(Some)],
        any::<bool>(),
    );
    let transient = (
        prop_oneof![9 => Just(None), 1 => (offset(), offset()).prop_map(Some)],
        prop_oneof![8 => Just(0u8), 1 => Just(1u8), 1 => Just(2u8)],
    );
    (head, body, transient)
        .prop_map(|((title, image, mode, color, flags, transparency, x, y, fp), (rows, extra_w, extra_h, shape, bottom, alloc_all), (preview, route))| {
            let longest = rows.iter().map(|r| r.cells.len()).max().unwrap_or(0) as u16;
            let (mut w, mut h) = (longest + extra_w, rows.len() as u16 + extra_h + u16::from(bottom.is_some()));
            match shape {
                1 => w = 0,
                2 => h = 0,
                3 => (w, h) = (200, 120),
                4 => w = 200,
                5 => h = 120,
                _ => {}
            }
            let (w, h) = (w.min(200), h.min(120));
            let is_image = image.is_some();
            LayerM {
                title,
                image,
                mode,
                color,
                flags,
                transparency,
                x,
                y,
                w,
                h,
                fp,
                rows: if is_image { Vec::new() } else { rows },
                bottom: if is_image { None } else { bottom },
                alloc_all,
                preview,
                route,
            }
        })
        .boxed()
}

/// the name of the stock font (BitFont::is_default() looks at nothing else)
fn stock_name() -> String {
    BitFont::default().name
}

/// font names are independent of the glyph data: the stock default name, the name of some built-in font, or any text
fn font_name() -> BoxedStrategy<String> {
    prop_oneof![
        3 => Just(stock_name()),
        1 => any::<u16>().prop_map(|i| icy_engine::FONT_NAMES[pick(i, icy_engine::FONT_NAMES.len())].to_string()),
        2 => any::<u16>().prop_map(|i| icy_engine::SAUCE_FONT_NAMES[pick(i, icy_engine::SAUCE_FONT_NAMES.len())].to_string()),
        1 => (0u32..300).prop_map(|n| format!("custom font {n}")),
        6 => uni_string(30),
    ]
    .boxed()
}

fn custom_font(name: BoxedStrategy<String>) -> BoxedStrategy<FontKind> {
    (
        name,
        prop_oneof![5 => Just(8u8), 1 => 1u8..=8],
        prop_oneof![3 => Just(16u8), 2 => Just(8u8), 3 => 1u8..=32, 1 => Just(1u8), 1 => Just(32u8)],
        prop_oneof![3 => Just(false), 1 => Just(true)],
        any::<u32>(),
    )
        .prop_map(|(name, w, h, big, seed)| FontKind::Custom { name, w, h, big, seed })
        .boxed()
}

fn builtin_as(page: BoxedStrategy<u8>, name: BoxedStrategy<String>, edit: BoxedStrategy<Option<u32>>) -> BoxedStrategy<FontKind> {
    (page, name, edit).prop_map(|(page, name, edit)| FontKind::BuiltinAs { page, name, edit }).boxed()
}

/// slot 0: half stock; 15% a NON-stock font that carries the stock name (redrawn cp437, another built-in, custom glyphs);
/// 10% the stock glyphs under a foreign name; the rest any font
fn font0() -> BoxedStrategy<FontKind> {
    let some_seed = || any::<u32>().prop_map(Some).boxed();
    prop_oneof![
        10 => Just(FontKind::Builtin(0)),
        1 => builtin_as(Just(0u8).boxed(), Just(stock_name()).boxed(), some_seed()),
        1 => builtin_as((1u8..42).boxed(), Just(stock_name()).boxed(), prop_oneof![Just(None), any::<u32>().prop_map(Some)].boxed()),
        1 => custom_font(Just(stock_name()).boxed()),
        2 => builtin_as(Just(0u8).boxed(), uni_string(30), Just(None).boxed()),
        2 => page_edited(Just(0u8).boxed()),
        5 => font_kind(),
    ]
    .boxed()
}

fn glyph_edits() -> BoxedStrategy<Vec<(u8, u8, u8)>> {
    prop_oneof![3 => vec(any::<(u8, u8, u8)>(), 1..=1), 2 => vec(any::<(u8, u8, u8)>(), 1..=8), 1 => vec(any::<(u8, u8, u8)>(), 8..=8)].boxed()
}

fn rename() -> BoxedStrategy<Option<String>> {
    prop_oneof![3 => Just(None), 2 => font_name().prop_map(Some)].boxed()
}

/// clone of an earlier slot: unedited (equal glyphs, maybe another name) or edited in place, mostly WITHOUT checksum refresh
fn clone_of() -> BoxedStrategy<FontKind> {
    (
        prop_oneof![2 => Just(0u16), 2 => Just(u16::MAX), 1 => any::<u16>()],
        prop_oneof![2 => Just(Vec::new()).boxed(), 5 => glyph_edits()],
        rename(),
        prop_oneof![4 => Just(false), 1 => Just(true)],
    )
        .prop_map(|(of, edits, rename, refresh)| FontKind::CloneOf { of, edits, rename, refresh })
        .boxed()
}

fn page_edited(page: BoxedStrategy<u8>) -> BoxedStrategy<FontKind> {
    (page, glyph_edits(), rename(), prop_oneof![4 => Just(false), 1 => Just(true)])
        .prop_map(|(page, edits, rename, refresh)| FontKind::PageEdited { page, edits, rename, refresh })
        .boxed()
}

fn from_bytes_font() -> BoxedStrategy<FontKind> {
    (
        0u8..3,
        font_name(),
        prop_oneof![5 => Just(8u8), 1 => 1u8..=8],
        prop_oneof![3 => Just(16u8), 2 => Just(8u8), 3 => 1u8..=32, 1 => Just(1u8), 1 => Just(32u8)],
        prop_oneof![3 => Just(false), 1 => Just(true)],
        any::<u32>(),
    )
        .prop_map(|(fmt, name, w, h, big, seed)| FontKind::FromBytes { fmt, name, w, h, big, seed })
        .boxed()
}

fn font_kind() -> BoxedStrategy<FontKind> {
    prop_oneof![
        4 => clone_of(),
        2 => page_edited(prop_oneof![2 => Just(0u8), 1 => 0u8..42].boxed()),
        2 => from_bytes_font(),
        3 => (0u8..42).prop_map(FontKind::Builtin),
        2 => builtin_as(prop_oneof![1 => Just(0u8), 2 => 0u8..42].boxed(), font_name(), prop_oneof![Just(None), any::<u32>().prop_map(Some)].boxed()),
        2 => custom_font(font_name()),
        3 => (
            uni_string(30),
            prop_oneof![5 => Just(8u8), 1 => 1u8..=8],
            prop_oneof![3 => Just(16u8), 2 => Just(8u8), 3 => 1u8..=32, 1 => Just(1u8), 1 => Just(32u8)],
            prop_oneof![3 => Just(false), 1 => Just(true)],
            any::<u32>()
        )
            .prop_map(|(name, w, h, big, seed)| FontKind::Custom { name, w, h, big, seed }),
    ]
    .boxed()
}

fn slot_no() -> BoxedStrategy<u16> {
    prop_oneof![3 => 1u16..=20, 2 => 250u16..=260, 2 => 1u16..=300, 1 => Just(300u16), 1 => Just(255u16), 1 => Just(256u16)].boxed()
}

fn fonts(max: usize) -> BoxedStrategy<Vec<FontM>> {
    vec((slot_no(), font_kind()), 0..=max)
        .prop_map(|mut v| {
            v.sort_by_key(|f| f.0);
            v.dedup_by_key(|f| f.0);
            v.into_iter().map(|(slot, kind)| FontM { slot, kind }).collect()
        })
        .boxed()
}

fn palette() -> BoxedStrategy<PaletteM> {
    let n = prop_oneof![
        6 => 1usize..=24,
        1 => prop_oneof![Just(15usize), Just(16usize), Just(17usize)],
        1 => Just(1usize),
        1 => 200usize..=300,
        1 => prop_oneof![Just(255usize), Just(256usize), Just(257usize)],
        1 => Just(300usize)
    ];
    let colors = (n, any::<u32>()).prop_map(|(n, seed)| prng_bytes(seed, n * 3).chunks(3).map(|c| (c[0] as u32) << 16 | (c[1] as u32) << 8 | c[2] as u32).collect::<Vec<u32>>());
    prop_oneof![
        5 => Just(PaletteM::Dos),
        1 => (tame(12), tame(12), tame(12)).prop_map(|(title, author, description)| PaletteM::DosRetitled { title, author, description }),
        1 => vec((any::<u16>(), tame(10)), 1..=3).prop_map(|names| PaletteM::DosNamed { names }),
        5 => (tame(12), tame(12), tame(12), colors, vec((any::<u16>(), tame(10)), 0..=3))
            .prop_map(|(title, author, description, colors, names)| PaletteM::Custom { title, author, description, colors, names }),
    ]
    .boxed()
}

fn sauce(max_comments: usize) -> BoxedStrategy<SauceM> {
    (sauce_text(35), sauce_text(20), sauce_text(20), vec(sauce_text(64), 0..=max_comments), any::<bool>(), any::<bool>(), any::<bool>())
        .prop_map(|(title, author, group, comments, letter_spacing, aspect_ratio, use_ice)| SauceM { title, author, group, comments, letter_spacing, aspect_ratio, use_ice })
        .boxed()
}

fn buf_size() -> BoxedStrategy<(u16, u16)> {
    prop_oneof![
        8 => (1u16..=12, 1u16..=8),
        1 => Just((80u16, 25u16)),
        1 => (0u16..=40, 0u16..=30),
        1 => (1u16..=3, prop_oneof![Just(79u16), Just(80u16), Just(81u16), Just(120u16)]),
        1 => prop_oneof![Just((0u16, 0u16)), Just((0u16, 5u16)), Just((5u16, 0u16)), Just((1u16, 1u16))],
    ]
    .boxed()
}

fn documents() -> BoxedStrategy<Doc> {
    let layers = prop_oneof![6 => vec(layer(5, 8), 1..=6), 2 => vec(layer(5, 8), 2..=3), 1 => vec(layer(20, 30), 1..=3)];
    (
        buf_size(),
        (0u8..5, 0u8..3, 0u8..4, 0u8..4),
        layers,
        palette(),
        font0(),
        prop_oneof![3 => Just(Vec::<FontM>::new()).boxed(), 4 => fonts(4)],
        prop_oneof![1 => Just(None), 1 => sauce(4).prop_map(Some)],
        (prop_oneof![11 => Just(None), 1 => any::<u8>().prop_map(Some)], prop_oneof![3 => Just(0u16), 2 => any::<u16>(), 1 => (0u32..15).prop_map(|b| 1u16 << b)]),
    )
        .prop_map(|((w, h), modes, layers, palette, font0, fonts, sauce, (overlay, opts))| Doc { w, h, modes, layers, palette, font0, fonts, sauce, tag: String::new(), overlay, opts })
        .boxed()
}

/// forced boundary documents: one extreme per case, the rest small
fn boundary() -> BoxedStrategy<Doc> {
    let base = || {
        (
            (1u16..=6, 1u16..=4),
            (0u8..5, 0u8..3, 0u8..4, 0u8..4),
            vec(layer(4, 6), 1..=2),
            palette(),
            font0(),
            fonts(2),
            prop_oneof![1 => Just(None), 1 => sauce(2).prop_map(Some)],
        )
            .prop_map(|((w, h), modes, layers, palette, font0, fonts, sauce)| Doc { w, h, modes, layers, palette, font0, fonts, sauce, tag: String::new(), overlay: None, opts: 0 })
    };
    // a dense maximum-size layer: every row from a small pool of rows, repeated
    let dense = (
        vec(row(200), 1..=4),
        vec(row(12), 1..=3),
        uni_string(300),
        any::<bool>(),
        prop_oneof![3 => Just(1u8), 1 => Just(3u8), 1 => Just(0u8), 1 => Just(25u8), 2 => 0u8..32],
        prop_oneof![2 => Just(0u8), 1 => Just(1u8), 1 => Just(2u8)],
    )
        .prop_map(|(wide, narrow, title, all_wide, flags, fill)| {
            let mut rows = Vec::new();
            for y in 0..120usize {
                let r = if all_wide || y % 3 == 0 { &wide[y % wide.len()] } else { &narrow[y % narrow.len()] };
                rows.push(r.clone());
            }
            if fill > 0 {
                rows = filled_rows(200, 120, fill == 2);
            }
            LayerM { title, image: None, mode: 0, color: None, flags, transparency: 0, x: -50, y: 50, w: 200, h: 120, fp: 0, rows, bottom: None, alloc_all: false, preview: None, route: 0 }
        });
    let long_text = (prop_oneof![Just(255usize), Just(256usize), Just(257usize), Just(65535usize), Just(65536usize), Just(65537usize)], prop_oneof![Just('a'), Just('é'), Just('\u{1F600}')])
        .prop_map(|(n, c)| std::iter::repeat(c).take(n / c.len_utf8() + 1).collect::<String>());
    let many_fonts = (vec(font_kind(), 300..=300), any::<bool>()).prop_map(|(kinds, all)| {
        kinds.into_iter().enumerate().filter(|(i, _)| all || i % 7 != 3).map(|(i, kind)| FontM { slot: i as u16 + 1, kind }).collect::<Vec<FontM>>()
    });
    prop_oneof![
        2 => (base(), dense.clone()).prop_map(|(mut d, l)| { d.layers.insert(0, l); d.layers.truncate(6); d.tag = "layer_200x120_dense".into(); d }),
        1 => (base(), vec(dense, 6..=6)).prop_map(|(mut d, ls)| { d.layers = ls; d.tag = "six_layers_200x120".into(); d }),
        2 => (base(), vec(layer(3, 6), 4..=4)).prop_map(|(mut d, mut ls)| {
            ls[0].w = 0; ls[1].h = 0; ls[2].w = 0; ls[2].h = 0; ls[3].w = 200; ls[3].h = 120;
            d.layers.extend(ls); d.layers.truncate(6); d.tag = "zero_and_max_layers".into(); d }),
        2 => (base(), any::<u32>(), vec((any::<u16>(), tame(10)), 0..=6), prop_oneof![Just(300usize), Just(299usize), Just(255usize), Just(256usize), Just(257usize), Just(15usize), Just(16usize), Just(17usize)]).prop_map(|(mut d, seed, names, n)| {
            d.palette = PaletteM::Custom { title: "max".into(), author: String::new(), description: String::new(),
                colors: prng_bytes(seed, n * 3).chunks(3).map(|c| (c[0] as u32) << 16 | (c[1] as u32) << 8 | c[2] as u32).collect(), names };
            d.tag = "palette_16_256_300".into(); d }),
        2 => (base(), many_fonts).prop_map(|(mut d, f)| { d.fonts = f; d.tag = "font_slots_300".into(); d }),
        2 => (base(), sauce(255), vec(sauce_text(64), 255..=255)).prop_map(|(mut d, mut s, c)| { s.comments = c; d.sauce = Some(s); d.tag = "sauce_255_comments".into(); d }),
        1 => (base(), long_text.clone(), long_text).prop_map(|(mut d, t, n)| {
            d.layers[0].title = t;
            d.fonts.push(FontM { slot: 299, kind: FontKind::Custom { name: n.chars().take(300).collect(), w: 8, h: 2, big: false, seed: 1 } });
            d.fonts.sort_by_key(|f| f.slot); d.fonts.dedup_by_key(|f| f.slot);
            d.tag = "long_title_font_name".into(); d }),
        1 => (base(), prop_oneof![Just((200u16, 120u16)), Just((200u16, 1u16)), Just((1u16, 120u16))]).prop_map(|(mut d, (w, h))| { d.w = w; d.h = h; d.tag = "buffer_200x120".into(); d }),
    ]
    .boxed()
}

// ------------------------------------------------------------------------------------------------ enumerated parts

fn small_doc(layers: Vec<LayerM>, tag: &str) -> Doc {
    Doc {
        w: 4,
        h: 2,
        modes: (1, 0, 1, 1),
        layers,
        palette: PaletteM::Dos,
        font0: FontKind::Builtin(0),
        fonts: vec![FontM { slot: 256, kind: FontKind::Custom { name: "f".into(), w: 8, h: 8, big: false, seed: 7 } }],
        sauce: None,
        tag: tag.to_string(),
        overlay: None,
        opts: 0,
    }
}

fn plain_layer(title: &str, w: u16, h: u16, rows: Vec<Row>) -> LayerM {
    LayerM { title: title.into(), image: None, mode: 0, color: None, flags: 1, transparency: 0, x: 0, y: 0, w, h, fp: 0, rows, bottom: None, alloc_all: false, preview: None, route: 0 }
}

const S_CELL: Cell = Cell::V('s' as u32, 1, 2, 1, 0);
const L_CELL: Cell = Cell::V(0x2588, 256, TRANSPARENT, 0x200, u16::MAX);

/// every combination of role x mode x 32 flag combinations x colour tag on a 3x2 layer with a short, a long and an invisible cell
const FLAG_CASES: u64 = 2 * 3 * 32 * 2;
fn flag_case(i: u64) -> Doc {
    let (role, mode, flags, col) = (i % 2, (i / 2) % 3, (i / 6) % 32, (i / 192) % 2);
    let mut l = plain_layer("flags", 3, 2, vec![Row { cells: vec![S_CELL, Cell::I, L_CELL], pad: 0 }, Row { cells: vec![L_CELL], pad: 0 }]);
    l.mode = mode as u8;
    l.flags = flags as u8;
    l.color = if col == 1 { Some((1, 2, 3)) } else { None };
    l.transparency = 77;
    l.x = -3;
    l.y = 2;
    if role == 1 {
        l.image = Some(ImageM { w: 3, h: 2, vscale: 1, hscale: 2, seed: i as u32 });
        l.rows.clear();
    }
    small_doc(vec![plain_layer("bg", 4, 2, vec![Row { cells: vec![S_CELL], pad: 0 }]), l], "")
}

/// every row over {invisible, short, long}^w for w = 0..=4 (121 rows) x 4 second rows x 2 storage forms
const ROW_PATTERNS: u64 = 1 + 3 + 9 + 27 + 81;
const ROW_CASES: u64 = ROW_PATTERNS * 4 * 2;
fn row_case(i: u64) -> Doc {
    let (mut p, second, explicit) = (i % ROW_PATTERNS, (i / ROW_PATTERNS) % 4, (i / (ROW_PATTERNS * 4)) % 2);
    let mut w = 0u32;
    while p >= 3u64.pow(w) {
        p -= 3u64.pow(w);
        w += 1;
    }
    let mut cells: Vec<Cell> = (0..w)
        .map(|k| match (p / 3u64.pow(k)) % 3 {
            0 => Cell::I,
            1 => S_CELL,
            _ => L_CELL,
        })
        .collect();
    if explicit == 0 {
        // storage form without the trailing invisible run
        while cells.last() == Some(&Cell::I) {
            cells.pop();
        }
    }
    let mut rows = vec![Row { cells, pad: 0 }];
    match second {
        0 => {}
        1 => rows.push(Row { cells: Vec::new(), pad: 2 }),
        2 => rows.push(Row { cells: Vec::new(), pad: 1 }),
        _ => rows.push(Row { cells: Vec::new(), pad: 3 }),
    }
    small_doc(vec![plain_layer("bg", 4, 2, vec![Row { cells: vec![S_CELL], pad: 0 }]), plain_layer("rows", w as u16, 2, rows)], "")
}

/// boundary values of every cell field, full product, on a one-cell layer (+ the same font page as the layer's default page)
const CV_CH: [u32; 6] = [0x41, 255, 256, 0xD7FF, 0xE000, 0x10_FFFF];
const CV_COL: [u32; 5] = [7, 255, 256, TRANSPARENT, u32::MAX];
const CV_FP: [u16; 4] = [0, 16384, 32768, 49152]; // selectors of the slots 0, 255, 256, 300
const CV_ATTR: [u16; 3] = [0, 0x3FF, 0x200];
const CELL_VALUE_CASES: u64 = 6 * 5 * 5 * 4 * 3;
fn cell_value_case(i: u64) -> Doc {
    let (c, f, b, p, a) = (i % 6, (i / 6) % 5, (i / 30) % 5, (i / 150) % 4, (i / 600) % 3);
    let cell = Cell::V(CV_CH[c as usize], CV_COL[f as usize], CV_COL[b as usize], CV_ATTR[a as usize], CV_FP[p as usize]);
    let mut l = plain_layer("v", 2, 1, vec![Row { cells: vec![cell], pad: 0 }]);
    l.fp = CV_FP[p as usize];
    let mut d = small_doc(vec![plain_layer("bg", 1, 1, Vec::new()), l], "");
    let f = |slot: u16| FontM { slot, kind: FontKind::Custom { name: format!("f{slot}"), w: 8, h: 4, big: slot == 300, seed: slot as u32 } };
    d.fonts = vec![f(255), f(256), f(300)];
    d
}

/// font names are independent of glyph data: slot {0, 1, 256} x glyphs {stock cp437, redrawn cp437, another built-in, custom 8x8, custom 512 glyphs 7x19}
/// x name {stock default name, another built-in font's name, empty, foreign text}
/// ... x {8 names incl. SAUCE font names "IBM VGA", "IBM VGA50", the last SAUCE font name, "custom font 3"} x SAUCE record {absent, present}
const FONT_NAME_CASES: u64 = 3 * 5 * 8 * 2;
fn font_name_case(i: u64) -> Doc {
    let (slot, src, nm, with_sauce) = ([0u16, 1, 256][(i % 3) as usize], (i / 3) % 5, (i / 15) % 8, (i / 120) % 2 == 1);
    let sn = icy_engine::SAUCE_FONT_NAMES;
    let name = match nm {
        0 => stock_name(),
        1 => icy_engine::FONT_NAMES[5 % icy_engine::FONT_NAMES.len()].to_string(),
        2 => String::new(),
        3 => "Mein Font \u{1F600}".to_string(),
        4 => sn[0].to_string(),
        5 => sn[1 % sn.len()].to_string(),
        6 => sn[sn.len() - 1].to_string(),
        _ => "custom font 3".to_string(),
    };
    let kind = match src {
        0 => FontKind::BuiltinAs { page: 0, name, edit: None },
        1 => FontKind::BuiltinAs { page: 0, name, edit: Some(i as u32) },
        2 => FontKind::BuiltinAs { page: 7, name, edit: None },
        3 => FontKind::Custom { name, w: 8, h: 8, big: false, seed: i as u32 },
        _ => FontKind::Custom { name, w: 7, h: 19, big: true, seed: i as u32 },
    };
    let mut l = plain_layer("t", 3, 1, vec![Row { cells: vec![S_CELL, Cell::V(0x100, 1, 2, 0, u16::MAX)], pad: 0 }]);
    l.fp = u16::MAX;
    let mut d = small_doc(vec![plain_layer("bg", 4, 2, vec![Row { cells: vec![S_CELL], pad: 0 }]), l], "");
    d.fonts.clear();
    if slot == 0 {
        d.font0 = kind;
    } else {
        d.fonts.push(FontM { slot, kind });
    }
    if with_sauce {
        d.sauce = Some(SauceM { title: "t".into(), author: "a".into(), group: String::new(), comments: vec!["c".into()], letter_spacing: true, aspect_ratio: false, use_ice: false });
    }
    d
}

/// equality-blind cells: AttributedChar == ignores the font page. ch {' ', NUL, 255, 'A'} x colours {default 7/0, 0/0, 7/7} x attr {0, bold} x
/// ordered pair of font pages (a, b) from slots {0, 1, 255, 256}: row [c(a), c(b), c(a), invisible, c(b)], layer default page a
const BLANK_CELL_CASES: u64 = 4 * 3 * 2 * 16;
fn blank_cell_case(i: u64) -> Doc {
    let (c, col, at, pa, pb) = (i % 4, (i / 4) % 3, (i / 12) % 2, (i / 24) % 4, (i / 96) % 4);
    let ch = [0x20u32, 0, 255, 0x41][c as usize];
    let (fg, bg) = [(7u32, 0u32), (0, 0), (7, 7)][col as usize];
    let sel = |k: u64| sel_for(k as usize, 4);
    let cell = |k: u64| Cell::V(ch, fg, bg, at as u16, sel(k));
    let mut l = plain_layer("blank", 6, 2, vec![Row { cells: vec![cell(pa), cell(pb), cell(pa), Cell::I, cell(pb)], pad: 0 }, Row { cells: vec![cell(pb)], pad: 1 }]);
    l.fp = sel(pa);
    l.flags = if i % 2 == 0 { 1 } else { 1 | 8 };
    let mut d = small_doc(vec![plain_layer("bg", 4, 2, vec![Row { cells: vec![L_CELL], pad: 0 }]), l], "");
    let f = |slot: u16| FontM { slot, kind: FontKind::Custom { name: format!("f{slot}"), w: 8, h: 4, big: false, seed: slot as u32 } };
    d.fonts = vec![f(1), f(255), f(256)];
    d
}

/// TRANSIENT STATE: preview offset {none, other, (0,0), equal to the offset} x overlay {none, at layer 0, at layer 1} x
/// construction route {direct, editing API then flags, flags then editing API} x flags {plain, position locked, alpha+alpha locked, locked, hidden, position+alpha locked}
const TRANSIENT_CASES: u64 = 4 * 3 * 3 * 6;
fn transient_case(i: u64) -> Doc {
    let (pv, ov, route, fl) = (i % 4, (i / 4) % 3, (i / 12) % 3, (i / 36) % 6);
    let mut l = plain_layer("state", 3, 2, vec![Row { cells: vec![S_CELL, Cell::I, L_CELL], pad: 0 }, Row { cells: vec![L_CELL], pad: 0 }]);
    l.x = -3;
    l.y = 2;
    l.flags = [1u8, 1 | 4, 1 | 8 | 16, 1 | 2, 0, 1 | 4 | 8 | 16][fl as usize];
    l.route = route as u8;
    l.preview = [None, Some((4, -1)), Some((0, 0)), Some((-3, 2))][pv as usize];
    let mut d = small_doc(vec![plain_layer("bg", 4, 2, vec![Row { cells: vec![S_CELL], pad: 0 }]), l], "");
    d.overlay = [None, Some(0u8), Some(1u8)][ov as usize];
    d
}

/// SAVE OPTIONS: every single option bit, none and all of them, with and without a SAUCE record (lossles_output stays true)
const SAVE_OPTION_CASES: u64 = 17 * 2;
fn save_option_case(i: u64) -> Doc {
    let (o, with_sauce) = (i % 17, i / 17 == 1);
    let mut d = small_doc(
        vec![
            plain_layer("bg", 4, 2, vec![Row { cells: vec![S_CELL, Cell::V(0x20, 7, 0, 0, 0), Cell::V(0x1B, 7, 0, 0, 0)], pad: 0 }]),
            plain_layer("top", 3, 2, vec![Row { cells: vec![L_CELL, Cell::I, Cell::V(0x20, 1, 0, 8, 0)], pad: 0 }, Row { cells: vec![S_CELL], pad: 2 }]),
        ],
        "",
    );
    d.opts = match o {
        0 => 0,
        16 => u16::MAX,
        b => 1u16 << (b - 1),
    };
    if with_sauce {
        d.sauce = Some(SauceM { title: "t".into(), author: "a".into(), group: "g".into(), comments: vec!["c".into()], letter_spacing: false, aspect_ratio: true, use_ice: false });
    }
    d
}

/// SAUCE record x buffer geometry/modes: buffer size {0x0, 0x5, 5x0, 1x1, 81x26} x ice mode {unlimited, blink, ice} x
/// SAUCE {absent, present with use_ice false, present with use_ice true + both flags} x slot-0 font {stock, custom glyphs named like a SAUCE font}
const SAUCE_BUFFER_CASES: u64 = 5 * 3 * 3 * 2;
fn sauce_buffer_case(i: u64) -> Doc {
    let (sz, ice, sa, fnt) = (i % 5, (i / 5) % 3, (i / 15) % 3, (i / 45) % 2);
    let (w, h) = [(0u16, 0u16), (0, 5), (5, 0), (1, 1), (81, 26)][sz as usize];
    let mut d = small_doc(
        vec![
            plain_layer("bg", 3, 2, vec![Row { cells: vec![S_CELL], pad: 0 }]),
            plain_layer("top", 2, 2, vec![Row { cells: vec![L_CELL], pad: 0 }]),
        ],
        "",
    );
    d.w = w;
    d.h = h;
    d.modes = (1, ice as u8, 1, 1);
    d.sauce = match sa {
        0 => None,
        1 => Some(SauceM { title: "t".into(), author: "a".into(), group: "g".into(), comments: vec![], letter_spacing: false, aspect_ratio: false, use_ice: false }),
        _ => Some(SauceM { title: "title".into(), author: String::new(), group: "grp".into(), comments: vec!["one".into(), String::new(), "three".into()], letter_spacing: true, aspect_ratio: true, use_ice: true }),
    };
    if fnt == 1 {
        d.font0 = FontKind::Custom { name: "IBM VGA".into(), w: 8, h: 16, big: false, seed: 3 };
    }
    d
}

/// selector that `pick` maps to index idx of n candidates
fn sel_for(idx: usize, n: usize) -> u16 {
    (((idx << 16) / n) + 1).min(65535) as u16
}

/// CONSTRUCTION ROUTES: base font {stock page, create_8 8x8, create_8 512 glyphs 7x19, from_bytes raw 8x14} x derivation
/// {plain clone, renamed clone, clone + 1 glyph edited in place (stale checksum), clone + 8 edits renamed (stale), clone + 1 edit with
/// refreshed checksum, three clones with different stale edits (one of them a clone of a clone)} x layout {base in slot 0 / clones 1..,
/// base in slot 0 / clones 256.., base in slot 1 / clones 2..}: slots with equal size, length and STORED checksum but different glyphs.
const FONT_ROUTE_CASES: u64 = 4 * 6 * 3;
fn font_route_case(i: u64) -> Doc {
    let (b, der, layout) = (i % 4, (i / 4) % 6, (i / 24) % 3);
    let base = match b {
        0 => FontKind::Builtin(0),
        1 => FontKind::Custom { name: "base".into(), w: 8, h: 8, big: false, seed: 11 },
        2 => FontKind::Custom { name: "base".into(), w: 7, h: 19, big: true, seed: 12 },
        _ => FontKind::FromBytes { fmt: 0, name: "base".into(), w: 8, h: 14, big: false, seed: 13 },
    };
    // position of the base among the candidates [font0, fonts..]
    let base_pos = if layout == 2 { 1 } else { 0 };
    let clone = |pos_self: usize, of_pos: usize, edits: Vec<(u8, u8, u8)>, rename: Option<&str>, refresh: bool| FontKind::CloneOf {
        of: sel_for(of_pos, pos_self),
        edits,
        rename: rename.map(|s| s.to_string()),
        refresh,
    };
    let p0 = base_pos + 1; // candidate count seen by the first derived font = its own position
    let eight: Vec<(u8, u8, u8)> = (0..8u8).map(|k| (b'A' + k, k, 0x10 << (k % 4))).collect();
    let derived: Vec<FontKind> = match der {
        0 => vec![clone(p0, base_pos, vec![], None, false)],
        1 => vec![clone(p0, base_pos, vec![], Some("other name"), false)],
        2 => vec![clone(p0, base_pos, vec![(b'A', 3, 0x18)], None, false)],
        3 => vec![clone(p0, base_pos, eight, Some("edited"), false)],
        4 => vec![clone(p0, base_pos, vec![(b'A', 3, 0x18)], None, true)],
        _ => vec![
            clone(p0, base_pos, vec![(b'A', 3, 0x18)], None, false),
            clone(p0 + 1, base_pos, vec![(b'B', 5, 0x24)], Some("second"), false),
            clone(p0 + 2, p0 + 1, vec![(0xDB, 0, 0x81)], None, false),
        ],
    };
    let first_slot: u16 = match layout {
        0 => 1,
        1 => 256,
        _ => 2,
    };
    let mut fonts = Vec::new();
    let font0 = if layout == 2 {
        fonts.push(FontM { slot: 1, kind: base });
        FontKind::Builtin(0)
    } else {
        base
    };
    for (k, kind) in derived.into_iter().enumerate() {
        fonts.push(FontM { slot: first_slot + k as u16, kind });
    }
    // one cell per slot so that the preview renders from every font
    let n = fonts.len() + 1;
    let cells: Vec<Cell> = (0..n).map(|k| Cell::V(0x141 + k as u32, 1, 2, 0, sel_for(k, n))).collect();
    let mut d = small_doc(vec![plain_layer("bg", 4, 2, vec![Row { cells: vec![S_CELL], pad: 0 }]), plain_layer("t", n as u16 + 1, 1, vec![Row { cells, pad: 0 }])], "");
    d.font0 = font0;
    d.fonts = fonts;
    d
}

/// rows of a completely filled w x h layer: `mixed` = long / short / invisible alternating, else every cell long-form (16 bytes each)
fn filled_rows(w: usize, h: usize, mixed: bool) -> Vec<Row> {
    (0..h)
        .map(|y| Row {
            cells: (0..w)
                .map(|x| {
                    let long = Cell::V(0x2500 + ((x * 7 + y) % 200) as u32, 256 + ((x + y) % 40) as u32, if x % 2 == 0 { TRANSPARENT } else { 7 }, ((x + y) % 1024) as u16, 0);
                    match (mixed, (x + 2 * y) % 3) {
                        (false, _) | (true, 0) => long,
                        (true, 1) => Cell::V(0x30 + ((x + y) % 70) as u32, (x % 16) as u32, (y % 8) as u32, (x % 2) as u16, 0),
                        _ => Cell::I,
                    }
                })
                .collect(),
            pad: 0,
        })
        .collect()
}

/// layers whose cell data straddle any plausible per-chunk payload limit (64 KiB .. 384 KB of records), completely filled,
/// for each flag set that makes the loader's set_char refuse cells (locked, hidden, alpha + alpha locked) and for none;
/// big layer first or second; plus image layers with 64 KiB .. 384 KB of pixel data. Independent of the writer's constant.
const CS_SIZES: [(u16, u16); 10] = [(64, 64), (100, 60), (128, 64), (150, 82), (160, 100), (164, 100), (200, 82), (137, 120), (200, 100), (200, 120)];
const CS_FLAGS: [u8; 4] = [1, 1 | 2, 0, 1 | 8 | 16];
const CS_IMAGES: [(u16, u16); 3] = [(128, 128), (256, 257), (320, 300)];
const CS_LAYER_CASES: u64 = 10 * 4 * 2 * 2;
const CHUNK_CASES: u64 = CS_LAYER_CASES + 3 * 2;
fn chunk_case(i: u64) -> Doc {
    let bg = plain_layer("bg", 4, 2, vec![Row { cells: vec![S_CELL], pad: 0 }]);
    let mut d = if i < CS_LAYER_CASES {
        let (sz, fl, mixed, first) = (i % 10, (i / 10) % 4, (i / 40) % 2 == 1, (i / 80) % 2 == 1);
        let (w, h) = CS_SIZES[sz as usize];
        let mut l = plain_layer("big", w, h, filled_rows(w as usize, h as usize, mixed));
        l.flags = CS_FLAGS[fl as usize];
        l.x = -7;
        l.y = 3;
        small_doc(if first { vec![l, bg] } else { vec![bg, l] }, "")
    } else {
        let j = i - CS_LAYER_CASES;
        let (w, h) = CS_IMAGES[(j % 3) as usize];
        let mut l = plain_layer("img", 5, 5, Vec::new());
        l.image = Some(ImageM { w, h, vscale: 1, hscale: 1, seed: j as u32 + 1 });
        l.flags = if j / 3 == 1 { 1 | 2 } else { 1 };
        small_doc(vec![bg, l], "")
    };
    d.fonts.clear();
    d
}

fn oversize_case(i: u64) -> Doc {
    let big_rows = |w: usize, h: usize| (0..h).map(|y| Row { cells: (0..w).map(|x| if (x + y) % 17 == 0 { Cell::I } else { Cell::V(0x2500 + ((x * 7 + y) % 200) as u32, 300, 7, 0, 0) }).collect(), pad: 0 }).collect::<Vec<Row>>();
    let mut l = plain_layer("oversize", 700, 300, Vec::new());
    let tag = match i {
        0 => {
            l.rows = big_rows(700, 300);
            "normal_layer_3MB_split"
        }
        1 => {
            l.rows = big_rows(700, 300);
            l.flags = 1 | 2;
            "normal_layer_3MB_split_locked"
        }
        _ => {
            l.w = 10;
            l.h = 10;
            l.image = Some(ImageM { w: 1000, h: 800, vscale: 1, hscale: 1, seed: 5 });
            "image_layer_3MB_split"
        }
    };
    let mut d = small_doc(vec![l], tag);
    d.fonts.clear();
    d
}

fn main() {
    let mut eng = Engine::new("C07");
    eng.rule(
        "documents: buffer 0..=40 x 0..=30 (mostly 1..=12 x 1..=8, some 80x25; the preview image cost grows with it), all buffer/ice/palette/font modes; 1..=6 layers built \
         from independent components: Unicode title (empty, ASCII, any scalars incl. NUL/newline/4-byte), role Normal or Image (one sixel at (0,0), 0..=48 px wide/high, exact RGBA data, any scales), mode, optional colour tag, \
         all 32 flag combinations, transparency, offsets -50..=50, default font page, rows stored as Line::chars of length <= width with cells invisible (canonical) / short / long (char up to U+10FFFF without surrogates, \
         colours >255, TRANSPARENT_COLOR, rgb-encoded, font pages >255), attribute bits 0..=9, row forms: empty, partial, padded to full width with short cells, with an allocated trailing invisible run, \
         invisible gap + long cell in the last column, over-long Line::chars (cells stored beyond the width, which Layer::get_char clips); layer size = longest row + extra, with forced 0-width, 0-height (4% of layers each), 200x120, 200 x n, n x 120 (2% each) layers; 1 layer in 8 is an Image layer; lines allocated fully or only as needed; \
         palette DOS / DOS colours with other meta data / custom 1..=300 colours with names; font slot 0 (built-in or custom 1..=8 x 1..=32, 256/512 glyphs) plus 0..=4 further slots in 1..=300 (biased to 255/256/300); \
         font pages of cells and layers are selectors into the existing slots; SAUCE absent or with title/author/group/0..=4 comments/flags. \
         boundary part: one forced extreme per case (dense 200x120 layer, six 200x120 layers, zero+max layers, 256/257/299/300 colours, ~300 font slots, 255 comments, buffer 200x120). \
         layer_flags (exhaustive): role x mode x 32 flag sets x colour tag. row_shapes (exhaustive): every row over {invisible,short,long}^w, w=0..=4, x 4 following rows x 2 storage forms. \
         chunk_straddle (fixed table, both tiers): completely filled layers 64x64 .. 200x120 (64 KiB .. 384 KB of long-form records, and a long/short/invisible mix) x flags {none, locked, hidden, alpha+alpha-locked} x big layer first/second, and image layers with 64 KiB .. 384 KB of pixels. \
         font_names (exhaustive table): slot {0,1,256} x glyphs {stock, redrawn stock, other built-in, custom 8x8, custom 512 x 7x19} x name {stock default name, other built-in name, empty, foreign}. \
         blank_cells (exhaustive table): cells that are equal under AttributedChar's PartialEq (which ignores the font page) next to each other in different font pages: char {' ',NUL,255,'A'} x colours {7/0,0/0,7/7} x attr {0,bold} x font page pairs from {0,1,255,256}. \
         transient_state (exhaustive table): pending preview offset {none, other, (0,0), = offset} x overlay layer {none, at 0, at 1} x construction route {direct, set_char/set_offset then flags, flags then set_char/set_offset} x 6 flag sets; \
         generated: 10% of layers with a pending preview offset, 10% each built through the editing API after / before the flags are set, 8% of documents with an overlay layer. The document's offset is get_base_offset(); overlay and preview are not part of the document. \
         save_options (exhaustive table) and generated: SaveOptions other than lossles_output=true vary over all fields (half of the generated documents use non-default options). \
         sauce_buffer (exhaustive table): buffer size {0x0,0x5,5x0,1x1,81x26} x ice mode x SAUCE {absent, plain, all flags + comments} x slot-0 font {stock, custom glyphs under a SAUCE font name}. \
         font_routes (exhaustive table): base font {stock page, create_8 8x8, create_8 512 glyphs, from_bytes raw} x {plain clone, renamed clone, clone with 1 / 8 glyphs edited in place and stale cached checksum, \
         edited clone with refreshed checksum, three stale clones incl. a clone of a clone} x 3 slot layouts. font construction route is a generated dimension: built-in page, from_bytes raw/PSF1/PSF2, create_8, clone of an earlier slot \
         (unedited / renamed / 1..=8 glyphs edited in place, 80% without calculate_checksum()), built-in page edited in place; a third of the extra slots are clones or edited pages, so documents regularly hold slots of equal size, length and stored checksum with different glyphs. \
         fonts: names are independent of glyph data (stock name 'Codepage 437 English' on redrawn/other/custom glyphs in slot 0 in 15% of documents and in other slots; stock glyphs under foreign names). \
         cell_values (exhaustive): product of boundary values char {0x41,255,256,0xD7FF,0xE000,0x10FFFF} x fg,bg {7,255,256,TRANSPARENT,0xFFFFFFFF} x font page {0,255,256,300} x attr {0,0x3FF,0x200}. \
         Non-trivial: >= 2 layers AND >= 1 long-form cell on a Normal layer AND >= 1 row terminator (a row of a Normal layer whose visible length is below the layer width); distinct by hash of the model.",
    );
    eng.assume("a layer's offset is its real offset (Layer::get_base_offset); a pending preview offset and an overlay layer are editor state, not part of the document, and are not compared after loading");
    eng.assume("font slot 0 always exists (Buffer::get_font_dimensions indexes it unconditionally; a document without it cannot be rendered or saved by any path)");
    eng.assume("Image layers carry exactly one sixel at position (0,0) with width*height*4 bytes and no cells; Normal layers carry no sixels (the format document defines nothing else)");
    eng.assume("invisible cells are exactly AttributedChar::invisible(); attribute bits 10..=13 unused; no more lines than the layer height; cells stored beyond the layer width are not part of the document (Layer::get_char reports them invisible)");
    eng.assume("palette meta data and colour names are single-line text without leading/trailing blanks; SAUCE strings are CP437-representable, compared after trimming trailing blanks; SAUCE ice flag expected = (buffer ice mode == Ice); SAUCE date, data type, font name and size fields are derived on save and not compared");
    eng.assume("font type (BuiltIn/Custom), file path, the cached checksum field and glyph entries beyond `length` are not part of a font slot's content; a slot's expected content is get_glyph over 0..length of the document's font object (or the model's own glyph bytes), never a cached field");

    eng.enumerated(PartCfg::new("layer_flags", 0, 0).exhaustive(true), FLAG_CASES, flag_case, check);
    eng.enumerated(PartCfg::new("row_shapes", 0, 0).exhaustive(true), ROW_CASES, row_case, check);
    eng.enumerated(PartCfg::new("cell_values", 0, 0).exhaustive(true), CELL_VALUE_CASES, cell_value_case, check);
    eng.enumerated(PartCfg::new("font_names", 0, 0).exhaustive(true), FONT_NAME_CASES, font_name_case, check);
    eng.enumerated(PartCfg::new("blank_cells", 0, 0).exhaustive(true), BLANK_CELL_CASES, blank_cell_case, check);
    eng.enumerated(PartCfg::new("transient_state", 0, 0).exhaustive(true), TRANSIENT_CASES, transient_case, check);
    eng.enumerated(PartCfg::new("save_options", 0, 0).exhaustive(true), SAVE_OPTION_CASES, save_option_case, check);
    eng.enumerated(PartCfg::new("sauce_buffer", 0, 0).exhaustive(true), SAUCE_BUFFER_CASES, sauce_buffer_case, check);
    eng.enumerated(PartCfg::new("font_routes", 0, 0).exhaustive(true), FONT_ROUTE_CASES, font_route_case, check);
    eng.enumerated(PartCfg::new("chunk_straddle", 0, 0).exhaustive(true), CHUNK_CASES, chunk_case, check);
    eng.generated(PartCfg::new("documents", 160_000, 2_400_000), documents, check);
    eng.generated(PartCfg::new("boundary", 240, 8_000).shrink_budget(300), boundary, check);
    let info = if eng.is_thorough() { 3 } else { 0 };
    eng.enumerated(PartCfg::new("oversize_info", 0, 0), info, oversize_case, check_info);
    eng.run();
}
