//! C06 — XBin compression is transparent and conforms to the XBin specification.
//!
//! Oracle (all clauses of the statement):
//!  * `ref.*`   the compressed stream the writer emits is decoded by a run-length decoder written from
//!              doc/FileFormats/x_bin.htm only: run byte = type (2 bits) + count-1 (6 bits) -> 1..=64 cells, a run never
//!              crosses a row end, every row decodes to exactly `width` cells, nothing but an optional SAUCE record
//!              follows the last row, and every decoded (char, attribute) pair equals the pair at the same position of
//!              the *uncompressed* encoding of the same buffer (attribute bit 3 = font page in 512-character mode);
//!  * `load.*`  `Buffer::from_bytes(compressed)` and `Buffer::from_bytes(uncompressed)` give the same picture cell for
//!              cell (char, colours, flags, font page) and the same size.
use icy_engine::{AttributedChar, BitFont, Buffer, BufferType, FontMode, IceMode, PaletteMode, SaveOptions, TextAttribute, TextPane};
use icyv::proptest::prelude::*;
use icyv::serde_json::json;
use icyv::{Engine, PartCfg, Verdict};
use serde::{Deserialize, Serialize};
use std::path::Path;
use std::sync::atomic::{AtomicU64, Ordering};

// ------------------------------------------------------------------------------------------------------------------
// model of a picture
// ------------------------------------------------------------------------------------------------------------------

/// one cell: character byte, attribute byte (fg = low nibble, bg/blink = high nibble), logical font page 0/1
#[derive(Clone, Copy, Debug, PartialEq, Eq, Hash, Serialize, Deserialize)]
struct Cell {
    ch: u8,
    at: u8,
    pg: u8,
    /// how the attribute byte `at` is STORED in the TextAttribute (the byte the cell displays as stays `at`):
    /// bit 0: a set bit 3 is stored as colour 0..7 + BOLD flag (the way the ANSI parser stores high intensity) instead of colour 8..15;
    /// bit 1: blink mode: a set bit 7 is stored as background 8..15 + blink flag instead of 0..7 + blink flag; ice mode: the blink
    ///        flag (which ice mode ignores) is set in addition;
    /// bit 2: the UNDERLINE flag, which XBin cannot store, is set.
    #[serde(default)]
    rp: u8,
}

const BLANK: Cell = Cell { ch: b' ', at: 0x07, pg: 0, rp: 0 };

#[derive(Clone)]
struct Model {
    w: usize,
    h: usize,
    ice: bool,
    sauce: bool,
    /// buffer font pages used for logical page 0 / 1
    pages: [usize; 2],
    cells: Vec<Cell>,
    /// storage-shape perturbation (icyv::shape::perturb), 0 = none; never changes the picture inside the buffer rectangle
    shape: u8,
    /// public state fields of the document, independent of what the cells use (0 = as Buffer::new leaves them), see `State`
    state: u16,
}

/// Decoded `state` code: bits 0-1 font_mode (Sauce, Single, FixedSize, Unlimited), bits 2-3 palette_mode (Fixed16, RGB, Free8,
/// Free16), bits 4-6 buffer_type (CP437, Unicode, Petscii, Atascii, Viewdata), bit 7 is_terminal_buffer, bit 8 ice_mode
/// Unlimited instead of the case's Blink/Ice (Unlimited reads and writes attribute bit 7 as blink, like Blink).
struct State {
    font_mode: u8,
    palette_mode: u8,
    buffer_type: u8,
    terminal: bool,
    unlimited: bool,
}

const STATE_FIELDS: [(&str, u16); 5] = [("font_mode", 0x003), ("palette_mode", 0x00C), ("buffer_type", 0x070), ("is_terminal_buffer", 0x080), ("ice_mode_unlimited", 0x100)];
const FONT_MODES: [&str; 4] = ["Sauce", "Single", "FixedSize", "Unlimited"];

fn state_of(code: u16) -> State {
    State { font_mode: (code & 3) as u8, palette_mode: ((code >> 2) & 3) as u8, buffer_type: (((code >> 4) & 7) % 5) as u8, terminal: code & 0x80 != 0, unlimited: code & 0x100 != 0 }
}

/// is the effective ice mode Ice (attribute bit 7 = background intensity)?
fn is_ice(m: &Model) -> bool {
    m.ice && !state_of(m.state).unlimited
}

fn build(m: &Model) -> (Buffer, &'static str) {
    let mut buf = Buffer::new((m.w as i32, m.h as i32));
    let st = state_of(m.state);
    buf.ice_mode = if st.unlimited {
        IceMode::Unlimited
    } else if m.ice {
        IceMode::Ice
    } else {
        IceMode::Blink
    };
    buf.font_mode = [FontMode::Sauce, FontMode::Single, FontMode::FixedSize, FontMode::Unlimited][st.font_mode as usize];
    buf.palette_mode = [PaletteMode::Fixed16, PaletteMode::RGB, PaletteMode::Free8, PaletteMode::Free16][st.palette_mode as usize];
    buf.buffer_type = [BufferType::CP437, BufferType::Unicode, BufferType::Petscii, BufferType::Atascii, BufferType::Viewdata][st.buffer_type as usize];
    buf.is_terminal_buffer = st.terminal;
    let mut used = [false; 2];
    for c in &m.cells {
        used[(c.pg & 1) as usize] = true;
    }
    for l in 0..2 {
        if used[l] && !buf.has_font(m.pages[l]) {
            buf.set_font(m.pages[l], BitFont::default());
        }
    }
    for y in 0..m.h {
        for x in 0..m.w {
            let c = m.cells[y * m.w + x];
            let mut a = TextAttribute::from_u8(c.at, buf.ice_mode);
            if c.rp & 1 != 0 && c.at & 0x08 != 0 {
                a.set_foreground((c.at & 0x07) as u32);
                a.set_is_bold(true);
            }
            if c.rp & 2 != 0 {
                if is_ice(m) {
                    a.set_is_blinking(true);
                } else if c.at & 0x80 != 0 {
                    a.set_background(((c.at >> 4) & 0x07) as u32 + 8);
                }
            }
            if c.rp & 4 != 0 {
                a.set_is_underlined(true);
            }
            a.set_font_page(m.pages[(c.pg & 1) as usize]);
            buf.layers[0].set_char((x as i32, y as i32), AttributedChar::new(c.ch as char, a));
        }
    }
    let shape = icyv::shape::perturb(&mut buf, m.shape);
    (buf, shape)
}

// ------------------------------------------------------------------------------------------------------------------
// XBin, from the specification (doc/FileFormats/x_bin.htm)
// ------------------------------------------------------------------------------------------------------------------

struct Header {
    width: usize,
    height: usize,
    flags: u8,
    /// offset of the image data
    data: usize,
}

const F_PALETTE: u8 = 1;
const F_FONT: u8 = 2;
const F_COMPRESS: u8 = 4;
const F_512: u8 = 16;

/// "The XBIN header consists of 11 bytes": ID(4) EOFChar(1) Width(2) Height(2) FontSize(1) Flags(1); then the palette
/// (48 bytes, only if the Palette bit is set), then the font (FontSize bytes for each of 256 — 512 with the 512Chars
/// bit — characters, only if the Font bit is set), then the image data.
fn parse_header(b: &[u8]) -> Result<Header, String> {
    if b.len() < 11 {
        return Err(format!("file of {} bytes is shorter than the 11-byte header", b.len()));
    }
    if &b[0..4] != b"XBIN" {
        return Err("ID is not \"XBIN\"".into());
    }
    if b[4] != 0x1A {
        return Err(format!("EOFChar is {:#04x}, not 0x1A", b[4]));
    }
    let width = b[5] as usize | (b[6] as usize) << 8;
    let height = b[7] as usize | (b[8] as usize) << 8;
    let font_size = b[9] as usize;
    let flags = b[10];
    if !(1..=32).contains(&font_size) {
        return Err(format!("FontSize {font_size} outside 1..=32"));
    }
    let mut data = 11;
    if flags & F_PALETTE != 0 {
        data += 48;
    }
    if flags & F_FONT != 0 {
        data += font_size * if flags & F_512 != 0 { 512 } else { 256 };
    } else if flags & F_512 != 0 {
        return Err("512Chars bit set without the Font bit".into());
    }
    if b.len() < data {
        return Err(format!("file of {} bytes ends inside palette/font (image data would start at {data})", b.len()));
    }
    Ok(Header { width, height, flags, data })
}

const RUN_NAMES: [&str; 4] = ["none", "char", "attr", "both"];

/// one decoded run: type, count, first column
#[derive(Clone, Copy)]
struct Run {
    ty: u8,
    n: usize,
}

struct Decoded {
    /// (char, attribute) per cell, row major
    cells: Vec<(u8, u8)>,
    /// run type that produced each cell
    by: Vec<u8>,
    /// runs of each row
    rows: Vec<Vec<Run>>,
    /// offset (inside the image data) of the first byte after the last row
    end: usize,
}

enum Structural {
    Truncated { row: usize, col: usize, what: &'static str, ty: u8 },
    Crosses { row: usize, col: usize, ty: u8, n: usize },
}

/// XBin-Compression, from the specification: a sequence of repeat-counter bytes, each followed by its data. The two most
/// significant bits are the type (00 none: n char/attr pairs; 01 character: char, n attrs; 10 attribute: attr, n
/// chars; 11 both: char, attr), the six least significant bits the count minus one (so 1..=64 repeats). Compression
/// works row by row and does not carry through to the next line.
fn ref_decode(d: &[u8], w: usize, h: usize) -> Result<Decoded, Structural> {
    let mut cells = Vec::with_capacity(w * h);
    let mut by = Vec::with_capacity(w * h);
    let mut rows = Vec::with_capacity(h);
    let mut o = 0usize;
    for row in 0..h {
        let mut col = 0usize;
        let mut runs = Vec::new();
        while col < w {
            if o >= d.len() {
                return Err(Structural::Truncated { row, col, what: "repeat counter", ty: 0 });
            }
            let rc = d[o];
            o += 1;
            let ty = rc >> 6;
            let n = (rc & 0x3F) as usize + 1;
            if col + n > w {
                return Err(Structural::Crosses { row, col, ty, n });
            }
            let need = match ty {
                0 => 2 * n,
                1 | 2 => 1 + n,
                _ => 2,
            };
            if o + need > d.len() {
                return Err(Structural::Truncated { row, col, what: "run data", ty });
            }
            match ty {
                0 => {
                    for i in 0..n {
                        cells.push((d[o + 2 * i], d[o + 2 * i + 1]));
                    }
                }
                1 => {
                    for i in 0..n {
                        cells.push((d[o], d[o + 1 + i]));
                    }
                }
                2 => {
                    for i in 0..n {
                        cells.push((d[o + 1 + i], d[o]));
                    }
                }
                _ => {
                    for _ in 0..n {
                        cells.push((d[o], d[o + 1]));
                    }
                }
            }
            for _ in 0..n {
                by.push(ty);
            }
            o += need;
            col += n;
            runs.push(Run { ty, n });
        }
        rows.push(runs);
    }
    Ok(Decoded { cells, by, rows, end: o })
}

/// SAUCE (revision 5): optional EOF character 0x1A, optional comment block "COMNT" + 64 bytes per comment line, then the
/// 128-byte record starting with "SAUCE"; byte 104 of the record is the number of comment lines.
fn is_sauce_tail(t: &[u8]) -> bool {
    if t.len() < 128 {
        return false;
    }
    let rec = &t[t.len() - 128..];
    if &rec[0..5] != b"SAUCE" {
        return false;
    }
    let n = rec[104] as usize;
    let mut rest = &t[..t.len() - 128];
    if n > 0 {
        let cl = 5 + 64 * n;
        if rest.len() < cl {
            return false;
        }
        let cb = &rest[rest.len() - cl..];
        if &cb[0..5] != b"COMNT" {
            return false;
        }
        rest = &rest[..rest.len() - cl];
    }
    rest.is_empty() || rest == [0x1A]
}

// ------------------------------------------------------------------------------------------------------------------
// the oracle
// ------------------------------------------------------------------------------------------------------------------

struct Failure {
    /// lower = reported first when a picture shows several
    sev: u8,
    key: String,
    msg: String,
    row: Option<usize>,
}

#[derive(Default)]
struct Stats {
    /// per row: non-trivial by the rule (run of >= 3 equal cells or a run-type switch in the compressed row)
    row_nt: Vec<bool>,
    runs: [u64; 4],
    max_run: usize,
    runs64: u64,
    mode512: bool,
    shape: &'static str,
}

struct Eval {
    stats: Stats,
    fails: Vec<Failure>,
}

static ROWS: AtomicU64 = AtomicU64::new(0);
static ROWS_NT: AtomicU64 = AtomicU64::new(0);
static RUNS: [AtomicU64; 4] = [AtomicU64::new(0), AtomicU64::new(0), AtomicU64::new(0), AtomicU64::new(0)];
static RUNS64: AtomicU64 = AtomicU64::new(0);
static CELLS: AtomicU64 = AtomicU64::new(0);
static ROWS_TOL: AtomicU64 = AtomicU64::new(0);

fn hex(b: &[u8]) -> String {
    let mut s = String::new();
    for (i, x) in b.iter().enumerate() {
        if i > 0 {
            s.push(' ');
        }
        s.push_str(&format!("{x:02x}"));
        if i >= 95 {
            s.push_str(" ...");
            break;
        }
    }
    s
}

fn cell_fields(b: &Buffer, x: i32, y: i32) -> (u32, u32, u32, u16, usize) {
    let c = b.get_char((x, y));
    (c.ch as u32, c.attribute.get_foreground(), c.attribute.get_background(), c.attribute.attr, c.attribute.get_font_page())
}

/// Err = a failure that makes the rest of the comparison meaningless (save error, header, truncated stream, run across a
/// row end); Ok = statistics plus every other failure found (at most one `ref.*` and one `load.*` failure per row).
fn evaluate(m: &Model) -> Result<Eval, Failure> {
    let (buf, shape_name) = build(m);
    let mut opt = SaveOptions::new();
    opt.lossles_output = true;
    opt.save_sauce = m.sauce;
    opt.compress = true;
    let comp = buf.to_bytes("xb", &opt);
    opt.compress = false;
    let unc = buf.to_bytes("xb", &opt);
    let (comp, unc) = match (comp, unc) {
        (Ok(c), Ok(u)) => (c, u),
        (c, u) => {
            let which = match (c.is_err(), u.is_err()) {
                (true, true) => "both",
                (true, false) => "compressed_only",
                _ => "uncompressed_only",
            };
            let e = c.err().or(u.err()).map(|e| e.to_string()).unwrap_or_default();
            return Err(Failure { sev: 0, key: format!("to_bytes_err|{which}"), msg: format!("to_bytes(\"xb\") failed ({which}): {e}"), row: None });
        }
    };

    // headers
    let hc = parse_header(&comp).map_err(|e| Failure { sev: 0, key: "header.invalid|compressed".into(), msg: e, row: None })?;
    let hu = parse_header(&unc).map_err(|e| Failure { sev: 0, key: "header.invalid|uncompressed".into(), msg: e, row: None })?;
    let mode512 = hu.flags & F_512 != 0;
    let mode = if mode512 { "512" } else { "single" };
    if hc.flags & F_COMPRESS == 0 || hu.flags & F_COMPRESS != 0 {
        return Err(Failure {
            sev: 0,
            key: "header.compress_flag".into(),
            msg: format!("flags: compressed file {:#04x}, uncompressed file {:#04x}", hc.flags, hu.flags),
            row: None,
        });
    }
    if hc.data != hu.data || comp[..10] != unc[..10] || (hc.flags & !F_COMPRESS) != hu.flags || comp[11..hc.data] != unc[11..hu.data] {
        return Err(Failure {
            sev: 0,
            key: format!("header.differs|{mode}"),
            msg: format!("header/palette/font of the two encodings differ: {} vs {}", hex(&comp[..11]), hex(&unc[..11])),
            row: None,
        });
    }
    if hu.width != m.w || hu.height != m.h {
        return Err(Failure {
            sev: 0,
            key: "header.size".into(),
            msg: format!("header says {}x{}, buffer is {}x{}", hu.width, hu.height, m.w, m.h),
            row: None,
        });
    }
    let (w, h) = (m.w, m.h);
    let ud = &unc[hu.data..];
    if ud.len() < w * h * 2 {
        return Err(Failure {
            sev: 0,
            key: format!("uncompressed.short|{mode}"),
            msg: format!("uncompressed image data has {} bytes, {}x{}x2 = {} needed", ud.len(), w, h, w * h * 2),
            row: None,
        });
    }
    let cd = &comp[hc.data..];

    // reference decoder
    let dec = match ref_decode(cd, w, h) {
        Ok(d) => d,
        Err(Structural::Truncated { row, col, what, ty }) => {
            return Err(Failure {
                sev: 0,
                key: "ref.stream_truncated".into(),
                msg: format!(
                    "compressed stream ({} bytes) ends while reading the {what} (type {}) at row {row} column {col}; stream: {}",
                    cd.len(),
                    RUN_NAMES[ty as usize],
                    hex(cd)
                ),
                row: Some(row),
            });
        }
        Err(Structural::Crosses { row, col, ty, n }) => {
            return Err(Failure {
                sev: 0,
                key: format!("ref.run_crosses_row_end|run={}", RUN_NAMES[ty as usize]),
                msg: format!("row {row}: a {} run of {n} cells starts at column {col} of a {w}-cell row; stream: {}", RUN_NAMES[ty as usize], hex(cd)),
                row: Some(row),
            });
        }
    };

    let mut fails: Vec<Failure> = Vec::new();

    // nothing but the optional SAUCE record after the last row
    let tail = &cd[dec.end..];
    if !tail.is_empty() && !is_sauce_tail(tail) {
        fails.push(Failure {
            sev: 1,
            key: format!("ref.trailing_bytes|sauce={}", m.sauce),
            msg: format!("{} bytes follow the last row and are not a SAUCE record: {}", tail.len(), hex(tail)),
            row: None,
        });
    }

    // cell by cell against the uncompressed encoding (per row: the most severe, then the leftmost mismatch)
    let mut bad = vec![false; w * h];
    for y in 0..h {
        let mut worst: Option<(u8, usize, &'static str)> = None;
        for x in 0..w {
            let i = y * w + x;
            let want = (ud[2 * i], ud[2 * i + 1]);
            let got = dec.cells[i];
            if want == got {
                continue;
            }
            bad[i] = true;
            let (sev, what) = if want.0 != got.0 {
                (2, "char")
            } else if mode512 && (want.1 ^ got.1) == 0x08 {
                (4, "font_page_bit")
            } else {
                (3, "attr")
            };
            if worst.map(|b| sev < b.0).unwrap_or(true) {
                worst = Some((sev, x, what));
            }
        }
        if let Some((sev, x, what)) = worst {
            let i = y * w + x;
            let want = (ud[2 * i], ud[2 * i + 1]);
            let got = dec.cells[i];
            let row_hex: Vec<String> = (0..w.min(48)).map(|k| format!("{:02x}{:02x}", ud[2 * (y * w + k)], ud[2 * (y * w + k) + 1])).collect();
            fails.push(Failure {
                sev,
                // the character byte has the same meaning in both modes; attribute bit 3 has not
                key: if what == "char" {
                    format!("ref.cell_mismatch.char|run={}", RUN_NAMES[dec.by[i] as usize])
                } else {
                    format!("ref.cell_mismatch.{what}|run={}|{mode}", RUN_NAMES[dec.by[i] as usize])
                },
                msg: format!(
                    "row {y} column {x}: compressed stream decodes to char {:#04x} attr {:#04x}, uncompressed encoding has char {:#04x} attr {:#04x} (cell produced by a '{}' run); uncompressed row (char,attr): {}; runs of the row: {}",
                    got.0,
                    got.1,
                    want.0,
                    want.1,
                    RUN_NAMES[dec.by[i] as usize],
                    row_hex.join(" "),
                    dec.rows[y].iter().map(|r| format!("{}x{}", RUN_NAMES[r.ty as usize], r.n)).collect::<Vec<_>>().join(",")
                ),
                row: Some(y),
            });
        }
    }

    // the engine's own reader on both encodings
    let lc = Buffer::from_bytes(Path::new("c.xb"), false, &comp);
    let lu = Buffer::from_bytes(Path::new("u.xb"), false, &unc);
    match (lc, lu) {
        (Ok(lc), Ok(lu)) => {
            if lc.get_width() != lu.get_width() || lc.get_height() != lu.get_height() {
                fails.push(Failure {
                    sev: 1,
                    key: "load.size_mismatch".into(),
                    msg: format!(
                        "from_bytes(compressed) is {}x{}, from_bytes(uncompressed) is {}x{} (saved buffer {w}x{h})",
                        lc.get_width(),
                        lc.get_height(),
                        lu.get_width(),
                        lu.get_height()
                    ),
                    row: None,
                });
            } else {
                let lw = lu.get_width().max(0) as usize;
                let lh = lu.get_height().max(0) as usize;
                // first difference in reading order that is not explained by a wrong cell in the stream itself (those are
                // reported by the ref clause); the reader is sequential, so the first difference is where it went wrong
                'cmp: for y in 0..lh {
                    for x in 0..lw {
                        let a = cell_fields(&lc, x as i32, y as i32);
                        let b = cell_fields(&lu, x as i32, y as i32);
                        if a == b || (x < w && y < h && bad[y * w + x]) {
                            continue;
                        }
                        let by = if x < w && y < h { RUN_NAMES[dec.by[y * w + x] as usize] } else { "outside" };
                        fails.push(Failure {
                            sev: 1,
                            key: format!("load.cell_mismatch|run={by}"),
                            msg: format!(
                                "row {y} column {x}: from_bytes(compressed) has (ch,fg,bg,flags,page) = {a:?}, from_bytes(uncompressed) has {b:?}, although the compressed stream decodes to the right cell by the specification (cell lies in a '{by}' run, {mode} mode)"
                            ),
                            row: if y < h { Some(y) } else { None },
                        });
                        break 'cmp;
                    }
                }
            }
        }
        (a, b) => {
            let which = match (a.is_err(), b.is_err()) {
                (true, true) => "both",
                (true, false) => "compressed_only",
                _ => "uncompressed_only",
            };
            let e = a.err().or(b.err()).map(|e| e.to_string()).unwrap_or_default();
            // documented refusal: the engine's reader accepts widths 1..=4096 only and says so, for both encodings alike; the
            // statement's reader clause is then vacuous (the specification clause above still holds the writer to account)
            let refused = which == "both" && w > 4096 && e.contains("Width out of range");
            if !refused {
                fails.push(Failure { sev: 1, key: format!("load_err|{which}"), msg: format!("from_bytes failed ({which}): {e}"), row: None });
            }
        }
    }

    // statistics / non-triviality
    let mut st = Stats { mode512, shape: shape_name, ..Default::default() };
    for y in 0..h {
        let runs = &dec.rows[y];
        let switch = runs.windows(2).any(|p| p[0].ty != p[1].ty);
        let mut eq3 = false;
        let mut streak = 1;
        for x in 1..w {
            let a = (ud[2 * (y * w + x)], ud[2 * (y * w + x) + 1]);
            let b = (ud[2 * (y * w + x - 1)], ud[2 * (y * w + x - 1) + 1]);
            if a == b {
                streak += 1;
                if streak >= 3 {
                    eq3 = true;
                    break;
                }
            } else {
                streak = 1;
            }
        }
        st.row_nt.push(switch || eq3);
        for r in runs {
            st.runs[r.ty as usize] += 1;
            st.max_run = st.max_run.max(r.n);
            if r.n == 64 {
                st.runs64 += 1;
            }
        }
    }
    Ok(Eval { stats: st, fails })
}

/// The input class of the (candidate) known finding "a 'both' run swallows a cell that differs from its neighbour only in
/// the font page": the row has two adjacent cells with the same character and attribute on different font pages.
fn has_page_only_pair(row: &[Cell]) -> bool {
    row.windows(2).any(|p| p[0].ch == p[1].ch && p[0].at == p[1].at && p[0].pg != p[1].pg)
}

const FP_KEY_PREFIX: &str = "ref.cell_mismatch.font_page_bit|run=both";

/// Decide one evaluated picture. With `tolerate` (only set by the generators while known_findings.json lists the
/// font-page finding as open) a row's `FP_KEY_PREFIX` failure is counted, not reported, if the row is in that finding's input class.
/// Of the remaining failures the most severe (then topmost) one is the verdict.
fn judge(m: &Model, ev: Eval, tolerate: bool, count: bool) -> Result<(Stats, usize), Failure> {
    let mut tolerated = 0usize;
    let mut best: Option<Failure> = None;
    for f in ev.fails {
        if tolerate && f.key.starts_with(FP_KEY_PREFIX) {
            if let Some(y) = f.row {
                if has_page_only_pair(&m.cells[y * m.w..(y + 1) * m.w]) {
                    tolerated += 1;
                    continue;
                }
            }
        }
        if best.as_ref().map(|b| f.sev < b.sev).unwrap_or(true) {
            best = Some(f);
        }
    }
    if let Some(f) = best {
        return Err(f);
    }
    let st = ev.stats;
    if count {
        ROWS.fetch_add(m.h as u64, Ordering::Relaxed);
        ROWS_TOL.fetch_add(tolerated as u64, Ordering::Relaxed);
        CELLS.fetch_add((m.w * m.h) as u64, Ordering::Relaxed);
        ROWS_NT.fetch_add(st.row_nt.iter().filter(|b| **b).count() as u64, Ordering::Relaxed);
        for t in 0..4 {
            RUNS[t].fetch_add(st.runs[t], Ordering::Relaxed);
        }
        RUNS64.fetch_add(st.runs64, Ordering::Relaxed);
    }
    Ok((st, tolerated))
}

/// evaluate + judge; a failure of a case with a perturbed storage shape or non-default document state is re-checked on
/// the plain document: if that fails with the same key, shape and state are irrelevant and the key stays as it is.
/// Otherwise the shape alone and each state field alone are tried, and the key names the one the defect needs.
fn assess(m: &Model, tolerate: bool, count: bool) -> Result<(Stats, usize), Failure> {
    let r = evaluate(m).and_then(|ev| judge(m, ev, tolerate, count));
    let perturbed = m.shape % icyv::shape::CODES != 0 || m.state & !0x100 != 0;
    match r {
        Err(f) if perturbed => {
            // "the same way" = the same oracle clause (the run type in the key may change with the look-ahead context).
            // ice_mode Unlimited changes what attribute bit 7 means, i.e. the picture: it stays as it is in every variant.
            let clause = |k: &str| k.split('|').next().unwrap_or("").to_string();
            let fails_same = |mm: &Model| matches!(evaluate(mm).and_then(|ev| judge(mm, ev, tolerate, false)), Err(g) if clause(&g.key) == clause(&f.key));
            let keep = m.state & 0x100;
            if fails_same(&Model { shape: 0, state: keep, ..m.clone() }) {
                return Err(f);
            }
            let mut needs = String::new();
            if m.shape % icyv::shape::CODES != 0 && fails_same(&Model { state: keep, ..m.clone() }) {
                needs = format!("shape={}", icyv::shape::perturb(&mut Buffer::new((1, 1)), m.shape));
            } else {
                for (name, mask) in STATE_FIELDS {
                    if mask != 0x100 && m.state & mask != 0 && fails_same(&Model { shape: 0, state: (m.state & mask) | keep, ..m.clone() }) {
                        let st = state_of(m.state);
                        needs = match name {
                            "font_mode" => format!("font_mode={}", FONT_MODES[st.font_mode as usize]),
                            _ => name.to_string(),
                        };
                        break;
                    }
                }
            }
            if needs.is_empty() {
                needs = "shape+state".into();
            }
            Err(Failure { key: format!("{}|{needs}", f.key), msg: format!("{} [needs {needs} (shape code {}, state code {:#05x}); the same picture in a plain document does not fail this way]", f.msg, m.shape, m.state), ..f })
        }
        r => r,
    }
}

// ------------------------------------------------------------------------------------------------------------------
// part 1/2: exhaustive small rows
// ------------------------------------------------------------------------------------------------------------------

/// A block of consecutive rows of one width: row number `first + k` (k in 0..n) is written in radix `radix` with `w`
/// digits, digit x (least significant first) is the cell of column x. radix 18: digit = ch + 3*at + 9*pg over
/// 3 characters x 3 attributes x 2 font pages; radix 9: the same with page 0 only; radix 4: digit = ch + 2*at over 2 characters x 2 attributes.
/// The block is saved as one buffer of height n (XBin compression is row by row); a failing row is re-checked alone.
#[derive(Clone, Debug, Hash, Serialize, Deserialize)]
struct RowBlock {
    radix: u8,
    w: u8,
    first: u64,
    n: u32,
    /// set by the generator only while known_findings.json lists the font-page finding as open: rows of that finding's
    /// input class failing with that finding's key are counted instead of reported (so that they do not mask the block)
    #[serde(default)]
    tol: bool,
    /// storage shape of the buffer the block is saved from (icyv::shape), 0 = as built
    #[serde(default)]
    shape: u8,
    /// attribute representation variant of the block (see Cell::rp): 0 = every cell as from_u8 stores it; 1 = bit 3 as BOLD in
    /// every cell; 2 = bit 3 as BOLD in the cells with odd (row index + column); 3 = bit 3 as BOLD in even
    /// columns, blink flag (ignored by the ice mode the blocks use) in odd columns, UNDERLINE flag where (row index + column) is a multiple of 3
    #[serde(default)]
    rep: u8,
    /// document state code (see `State`), 0 = as Buffer::new
    #[serde(default)]
    state: u16,
}

fn block_cell_rp(rep: u8, idx: u64, col: u64) -> u8 {
    match rep % 4 {
        0 => 0,
        1 => 1,
        2 => ((idx + col) & 1) as u8,
        _ => (if col % 2 == 0 { 1 } else { 2 }) | if (idx + col) % 3 == 0 { 4 } else { 0 },
    }
}

const CH18: [u8; 3] = [b' ', b'A', b'B'];
const AT18: [u8; 3] = [0x07, 0x0F, 0x17];
const CH4: [u8; 2] = [b' ', b'A'];
const AT4: [u8; 2] = [0x07, 0x0F];

fn digit_cell(radix: u8, d: u64) -> Cell {
    if radix == 18 || radix == 9 {
        Cell { ch: CH18[(d % 3) as usize], at: AT18[((d / 3) % 3) as usize], pg: ((d / 9) % 2) as u8, rp: 0 }
    } else {
        Cell { ch: CH4[(d % 2) as usize], at: AT4[((d / 2) % 2) as usize], pg: 0, rp: 0 }
    }
}

fn decode_row(radix: u8, w: u8, mut idx: u64) -> Vec<Cell> {
    let mut v = Vec::with_capacity(w as usize);
    for _ in 0..w {
        v.push(digit_cell(radix, idx % radix as u64));
        idx /= radix as u64;
    }
    v
}

const BLOCK: u64 = 512;

/// widths 1..=max_w -> (total blocks, per width (first block index, rows))
fn block_table(radix: u8, max_w: u8) -> (u64, Vec<(u64, u64)>) {
    let mut t = Vec::new();
    let mut off = 0u64;
    for w in 1..=max_w {
        let rows = (radix as u64).pow(w as u32);
        t.push((off, rows));
        off += rows.div_ceil(BLOCK);
    }
    (off, t)
}

fn make_block(radix: u8, table: &[(u64, u64)], i: u64, tol: bool) -> RowBlock {
    let mut wi = 0;
    for (k, (off, _)) in table.iter().enumerate() {
        if i >= *off {
            wi = k;
        }
    }
    let (off, rows) = table[wi];
    let first = (i - off) * BLOCK;
    // 60 % of the blocks as built, the rest cycling through the seven storage shapes
    let r = i % 10;
    let shape = if r < 6 { 0 } else { 1 + (((i / 10) * 4 + (r - 6)) % 7) as u8 };
    // half of the blocks with every attribute as from_u8 stores it, the rest cycling through the representation variants
    let q = i / 2;
    let rep = if i % 2 == 0 { 0 } else { 1 + (q % 3) as u8 };
    // half of the blocks with the document state Buffer::new gives, the rest with a state code spread over all field values
    let hsh = (i + 1).wrapping_mul(0x9E37_79B9_7F4A_7C15) >> 24;
    let state = if hsh & 1 == 0 { 0 } else { ((hsh >> 1) & 0x1FF) as u16 };
    RowBlock { radix, w: wi as u8 + 1, first, n: (rows - first).min(BLOCK) as u32, tol, shape, rep, state }
}

fn block_model(b: &RowBlock, first: u64, n: u32) -> Model {
    let mut cells = Vec::with_capacity(b.w as usize * n as usize);
    for k in 0..n as u64 {
        let mut row = decode_row(b.radix, b.w, first + k);
        for (x, c) in row.iter_mut().enumerate() {
            c.rp = block_cell_rp(b.rep, first + k, x as u64);
        }
        cells.extend(row);
    }
    Model { w: b.w as usize, h: n as usize, ice: true, sauce: false, pages: [0, 1], cells, shape: b.shape, state: b.state }
}

fn check_block(b: &RowBlock) -> Verdict {
    if !(b.radix == 18 || b.radix == 9 || b.radix == 4) || b.w == 0 || b.w > 12 || b.n == 0 || b.n > 4096 {
        return Verdict::discard("malformed block");
    }
    let rows = (b.radix as u64).pow(b.w as u32);
    if b.first >= rows || b.first + b.n as u64 > rows {
        return Verdict::discard("block outside the row domain");
    }
    let m = block_model(b, b.first, b.n);
    let res = assess(&m, b.tol, true);
    match res {
        Ok((st, tolerated)) => {
            let nt = st.row_nt.iter().any(|x| *x);
            let base = if b.shape % icyv::shape::CODES != 0 {
                format!("shape:{}", st.shape)
            } else if b.state != 0 {
                format!("state/font_mode={}", FONT_MODES[(b.state & 3) as usize])
            } else if b.rep % 4 != 0 {
                format!("rep{}", b.rep % 4)
            } else {
                format!("w{}", b.w)
            };
            Verdict::pass(nt, format!("{base}{}", if tolerated > 0 { "+known_font_page_rows" } else { "" }))
        }
        Err(f) => {
            if b.n == 1 {
                let row = &m.cells;
                return Verdict::fail(f.key, format!("{} | row cells: {}", f.msg, json!(row)));
            }
            // narrow to the single row, checked alone in a 1-row buffer
            let cand: Vec<u64> = match f.row {
                Some(y) => vec![b.first + y as u64],
                None => (b.first..b.first + b.n as u64).collect(),
            };
            for idx in cand {
                let m1 = block_model(b, idx, 1);
                if let Err(f1) = assess(&m1, b.tol, false) {
                    let single = RowBlock { radix: b.radix, w: b.w, first: idx, n: 1, tol: false, shape: b.shape, rep: b.rep, state: b.state };
                    let row = &m1.cells;
                    return Verdict::fail(f1.key, format!("single-row case {} = cells {} : {}", json!(single), json!(row), f1.msg.replace("row 0 ", "")));
                }
            }
            Verdict::fail(format!("{}|only_in_multi_row_buffer", f.key), f.msg)
        }
    }
}

// ------------------------------------------------------------------------------------------------------------------
// part 3: generated pictures
// ------------------------------------------------------------------------------------------------------------------

/// A stretch of `len` cells. kind 0: all equal (ch,at,pg); 1: same character, attribute steps through the attribute
/// alphabet; 2: same attribute, character steps through the character alphabet; 3: both step; 4: all equal but the
/// font page alternates from cell to cell (only with two pages); 5: every cell an independent pseudo-random draw from the
/// alphabets (with the full byte range: no runs at all); 6: all equal, the attribute stored alternately in its two representations.
#[derive(Clone, Debug, Hash, Serialize, Deserialize)]
struct Piece {
    kind: u8,
    len: u8,
    ch: u8,
    at: u8,
    pg: u8,
    /// attribute representation of the piece's cells (Cell::rp bits); kind 5 draws it per cell, kind 6 alternates bit 0
    #[serde(default)]
    rp: u8,
}

#[derive(Clone, Debug, Hash, Serialize, Deserialize)]
struct Pic {
    w: u16,
    ice: bool,
    sauce: bool,
    /// number of logical font pages the cells may use (1 or 2) and the buffer font slots standing for them
    npages: u8,
    pages: (u8, u8),
    /// character alphabet; empty = the full byte range (piece.ch is the byte itself)
    chars: Vec<u8>,
    /// attribute alphabet; empty = the full byte range
    attrs: Vec<u8>,
    /// how a row is completed when its pieces are shorter than w: 0 = repeat the pieces, 1 = blanks, 2 = repeat the last cell
    fill: u8,
    /// one entry per row (height = rows.len())
    rows: Vec<Vec<Piece>>,
    /// see RowBlock::tol
    #[serde(default)]
    tol: bool,
    /// storage shape (icyv::shape), 0 = as built
    #[serde(default)]
    shape: u8,
    /// false: every piece's `rp` is ignored (all attributes stored the way from_u8 stores them)
    #[serde(default)]
    reps: bool,
    /// document state code (see `State`), 0 = as Buffer::new
    #[serde(default)]
    state: u16,
}

fn idx(v: u8, len: usize) -> usize {
    if len == 0 {
        v as usize
    } else {
        (v as usize * len) >> 8
    }
}

fn sym(alpha: &[u8], base: u8, step: usize) -> u8 {
    if alpha.is_empty() {
        base.wrapping_add(step as u8)
    } else {
        alpha[(idx(base, alpha.len()) + step) % alpha.len()]
    }
}

fn expand_row(p: &Pic, pieces: &[Piece]) -> Vec<Cell> {
    let w = p.w as usize;
    let mut out: Vec<Cell> = Vec::with_capacity(w);
    let np = if p.npages >= 2 { 2 } else { 1 };
    let emit = |pc: &Piece, out: &mut Vec<Cell>| {
        for i in 0..pc.len.max(1) as usize {
            if out.len() >= w {
                break;
            }
            // kind 5: every cell an independent pseudo-random draw (a fixed function of the piece and the position)
            let noise = (pc.ch as u32 * 0x0101 + pc.at as u32 * 0x1_0001 + i as u32 + 1).wrapping_mul(0x9E37_79B1).rotate_left(7).wrapping_mul(0x85EB_CA6B);
            let (cs, as_, ps, rp) = match pc.kind % 7 {
                0 => (0, 0, 0, pc.rp),
                1 => (0, i, 0, pc.rp),
                2 => (i, 0, 0, pc.rp),
                3 => (i, i, 0, pc.rp),
                4 => (0, 0, i, pc.rp),
                5 => ((noise >> 24) as usize, ((noise >> 14) & 0xFF) as usize, ((noise >> 5) & 1) as usize, if pc.rp == 0 { 0 } else { (noise & 7) as u8 }),
                // the same byte in every cell, stored alternately in the two representations
                _ => (0, 0, 0, pc.rp ^ (i as u8 & 1)),
            };
            out.push(Cell { ch: sym(&p.chars, pc.ch, cs), at: sym(&p.attrs, pc.at, as_), pg: ((pc.pg as usize + ps) % np) as u8, rp: if p.reps { rp & 7 } else { 0 } });
        }
    };
    for pc in pieces {
        emit(pc, &mut out);
    }
    if out.len() < w {
        match (p.fill % 3, pieces.is_empty() || out.is_empty()) {
            (0, false) => {
                while out.len() < w {
                    for pc in pieces {
                        emit(pc, &mut out);
                    }
                }
            }
            (2, false) => {
                let last = *out.last().unwrap();
                out.resize(w, last);
            }
            _ => out.resize(w, BLANK),
        }
    }
    out
}

fn pic_model(p: &Pic) -> Model {
    // pictures wider than 200 columns keep their first two rows only (the compressor's look-ahead is quadratic in the width)
    let rows = if p.w > 200 { &p.rows[..p.rows.len().min(2)] } else { &p.rows[..] };
    let mut cells = Vec::with_capacity(p.w as usize * rows.len());
    for r in rows {
        cells.extend(expand_row(p, r));
    }
    Model { w: p.w as usize, h: rows.len(), ice: p.ice, sauce: p.sauce, pages: [p.pages.0 as usize, p.pages.1 as usize], cells, shape: p.shape, state: p.state }
}

fn pic_strategy(tol: bool) -> BoxedStrategy<Pic> {
    let w = prop_oneof![
        400 => 1u16..=200,
        300 => proptest::sample::select(vec![63u16, 64, 65, 127, 128, 129]),
        200 => 1u16..=12,
        100 => 190u16..=200,
        // beyond one byte of column count (the header holds 16 bits): few rows (see pic_model), run-structured content
        6 => proptest::sample::select(vec![255u16, 256, 257, 300, 320, 511, 512, 513]),
        1 => proptest::sample::select(vec![1000u16, 1000, 1000, 4096]),
    ];
    let len = prop_oneof![
        6 => 1u8..=5,
        2 => 6u8..=40,
        2 => proptest::sample::select(vec![62u8, 63, 64, 65, 66, 126, 127, 128, 129, 130]),
    ];
    let rp = prop_oneof![5 => Just(0u8), 3 => Just(1u8), 4 => 0u8..=7];
    let piece = (0u8..=6, len, any::<u8>(), any::<u8>(), 0u8..=1, rp).prop_map(|(kind, len, ch, at, pg, rp)| Piece { kind, len, ch, at, pg, rp });
    let rows = prop_oneof![
        3 => proptest::collection::vec(proptest::collection::vec(piece.clone(), 0..=12), 1..=3),
        1 => proptest::collection::vec(proptest::collection::vec(piece, 0..=10), 1..=30),
    ];
    let chb = prop_oneof![3 => proptest::sample::select(vec![0x20u8, 0x41, 0x42, 0xDB, 0x00, 0xFF]), 1 => any::<u8>()];
    let atb = prop_oneof![3 => proptest::sample::select(vec![0x07u8, 0x0F, 0x17, 0x70, 0x87, 0xF8, 0x08, 0x03, 0x0B]), 1 => any::<u8>()];
    let chars = prop_oneof![2 => proptest::collection::vec(chb, 1..=3), 1 => Just(Vec::new())];
    let attrs = prop_oneof![2 => proptest::collection::vec(atb, 1..=3), 1 => Just(Vec::new())];
    let pages = proptest::sample::select(vec![(0u8, 1u8), (0, 1), (0, 2), (1, 0), (1, 3), (2, 1)]);
    let shape = prop_oneof![6 => Just(0u8), 4 => 1u8..icyv::shape::CODES];
    (w, any::<bool>(), prop_oneof![3 => Just(false), 1 => Just(true)], 1u8..=2, pages, chars, attrs, 0u8..=2, rows, shape, (any::<bool>(), prop_oneof![1 => Just(0u16), 1 => 0u16..512]))
        .prop_map(move |(w, ice, sauce, npages, pages, chars, attrs, fill, rows, shape, (reps, state))| Pic { w, ice, sauce, npages, pages, chars, attrs, fill, rows, tol, shape, reps, state })
        .boxed()
}

/// simpler candidates tried greedily after proptest's shrinking: fewer rows, fewer/shorter pieces, narrower picture
fn minimize_pic(p: &Pic) -> Vec<Pic> {
    let mut out = Vec::new();
    if p.rows.len() > 1 {
        for y in 0..p.rows.len() {
            let mut q = p.clone();
            q.rows.remove(y);
            out.push(q);
        }
    }
    for w in [1u16, 2, 3, 4, p.w / 2, p.w.saturating_sub(1)] {
        if w >= 1 && w < p.w {
            out.push(Pic { w, ..p.clone() });
        }
    }
    for y in 0..p.rows.len() {
        for k in 0..p.rows[y].len() {
            let mut q = p.clone();
            q.rows[y].remove(k);
            out.push(q);
            if p.rows[y][k].rp != 0 {
                let mut q = p.clone();
                q.rows[y][k].rp = 0;
                out.push(q);
            }
            if p.rows[y][k].len > 1 {
                for len in [1, p.rows[y][k].len / 2, p.rows[y][k].len - 1] {
                    if len >= 1 && len < p.rows[y][k].len {
                        let mut q = p.clone();
                        q.rows[y][k].len = len;
                        out.push(q);
                    }
                }
            }
        }
    }
    if p.sauce {
        out.push(Pic { sauce: false, ..p.clone() });
    }
    if p.shape != 0 {
        out.push(Pic { shape: 0, ..p.clone() });
    }
    if p.reps {
        out.push(Pic { reps: false, ..p.clone() });
    }
    if p.state != 0 {
        out.push(Pic { state: 0, ..p.clone() });
        for (_, mask) in STATE_FIELDS {
            if p.state & mask != 0 && p.state & !mask != 0 {
                out.push(Pic { state: p.state & !mask, ..p.clone() });
            }
        }
    }
    if p.fill != 1 {
        out.push(Pic { fill: 1, ..p.clone() });
    }
    out
}

fn check_pic(p: &Pic) -> Verdict {
    if p.w == 0 || p.w > 4096 || p.rows.is_empty() || p.rows.len() > 30 || p.pages.0 == p.pages.1 || p.pages.0 > 8 || p.pages.1 > 8 {
        return Verdict::discard("outside the generated domain");
    }
    let m = pic_model(p);
    match assess(&m, p.tol, true) {
        Ok((st, tolerated)) => {
            let alpha = match (p.chars.is_empty(), p.attrs.is_empty()) {
                (true, true) => "full",
                (false, false) => "small",
                _ => "mixed",
            };
            let nt = st.row_nt.iter().any(|x| *x);
            // does any cell store its attribute byte in a non-default representation?
            let reps = m.cells.iter().any(|c| (c.rp & 1 != 0 && c.at & 0x08 != 0) || (c.rp & 2 != 0 && (is_ice(&m) || c.at & 0x80 != 0)) || c.rp & 4 != 0);
            let known = if tolerated > 0 { "+known_font_page_rows" } else { "" };
            let class = if p.w > 200 {
                format!("wide/{}{known}", if st.mode512 { "512" } else { "single" })
            } else if p.shape % icyv::shape::CODES != 0 {
                format!("shape:{}{known}", st.shape)
            } else if p.state != 0 {
                format!("state/font_mode={}/{}{known}", FONT_MODES[(p.state & 3) as usize], if st.mode512 { "512" } else { "single" })
            } else {
                format!("{alpha}/{}{}{known}", if st.mode512 { "512" } else { "single" }, if reps { "/reps" } else { "" })
            };
            Verdict::pass(nt, class)
        }
        Err(f) => Verdict::fail(f.key, f.msg),
    }
}

// ------------------------------------------------------------------------------------------------------------------
// part: wide rows with one run placed at a chosen distance from the row end
// ------------------------------------------------------------------------------------------------------------------

/// One row of width `w`: blanks, then at column `w - rem` a stretch of `len` cells of run type `ty` (0 none: character and
/// attribute change from cell to cell, 1 character: same character, attributes alternate, 2 attribute: same attribute,
/// characters alternate, 3 both: equal cells), then a different filler cell up to the row end.
#[derive(Clone, Debug, Hash, Serialize, Deserialize)]
struct WideRun {
    w: u16,
    rem: u16,
    ty: u8,
    len: u8,
    #[serde(default)]
    state: u16,
}

const WIDE_WIDTHS: [u16; 11] = [255, 256, 257, 300, 320, 511, 512, 513, 1000, 4096, 65535];
const WIDE_REMS: [u16; 9] = [1, 63, 64, 65, 255, 256, 257, 511, 512];

fn wide_table(lens: &[u8]) -> Vec<WideRun> {
    let mut t = Vec::new();
    for w in WIDE_WIDTHS {
        for rem in WIDE_REMS {
            if rem > w {
                continue;
            }
            for ty in 0..4u8 {
                for &len in lens {
                    if len as u16 <= rem {
                        let k = t.len() as u64;
                        // every fourth case with a non-default document state
                        let hsh = (k + 1).wrapping_mul(0x9E37_79B9_7F4A_7C15) >> 24;
                        let state = if k % 4 == 3 { ((hsh >> 1) & 0x1FF) as u16 } else { 0 };
                        t.push(WideRun { w, rem, ty, len, state });
                    }
                }
            }
        }
    }
    t
}

fn wide_model(c: &WideRun) -> Model {
    let w = c.w as usize;
    let start = w - c.rem as usize;
    let mut cells = vec![BLANK; w];
    for i in 0..c.len as usize {
        let alt = (i & 1) as u8;
        cells[start + i] = match c.ty % 4 {
            0 => Cell { ch: b'E' + (i % 7) as u8, at: 0x4A + 0x11 * (i % 3) as u8, pg: 0, rp: 0 },
            1 => Cell { ch: b'B', at: if alt == 0 { 0x1E } else { 0x2D }, pg: 0, rp: 0 },
            2 => Cell { ch: b'C' + alt, at: 0x3C, pg: 0, rp: 0 },
            _ => Cell { ch: b'A', at: 0x1E, pg: 0, rp: 0 },
        };
    }
    for c2 in cells.iter_mut().skip(start + c.len as usize) {
        *c2 = Cell { ch: b'z', at: 0x70, pg: 0, rp: 0 };
    }
    Model { w, h: 1, ice: true, sauce: false, pages: [0, 1], cells, shape: 0, state: c.state }
}

fn check_wide(c: &WideRun) -> Verdict {
    if c.w == 0 || c.rem == 0 || c.rem > c.w || c.len == 0 || c.len > 64 || c.len as u16 > c.rem {
        return Verdict::discard("malformed wide-run case");
    }
    let m = wide_model(c);
    match assess(&m, false, true) {
        Ok((st, _)) => Verdict::pass(st.row_nt.iter().any(|x| *x), format!("w{}{}", c.w, if c.w > 4096 { "(reader refuses: spec decoder only)" } else { "" })),
        Err(f) => Verdict::fail(f.key, f.msg),
    }
}

extern "C" fn row_report() {
    let rows = ROWS.load(Ordering::Relaxed);
    if rows > 1 {
        println!(
            "[C06] rows: evaluated={} non_trivial={} tolerated_known_font_page={} cells={} runs none/char/attr/both={}/{}/{}/{} runs_of_64={}",
            rows,
            ROWS_NT.load(Ordering::Relaxed),
            ROWS_TOL.load(Ordering::Relaxed),
            CELLS.load(Ordering::Relaxed),
            RUNS[0].load(Ordering::Relaxed),
            RUNS[1].load(Ordering::Relaxed),
            RUNS[2].load(Ordering::Relaxed),
            RUNS[3].load(Ordering::Relaxed),
            RUNS64.load(Ordering::Relaxed)
        );
    }
}

/// Is the font-page finding listed as open for C06 in known_findings.json (any id; recognised by its key / key_prefix)?
fn font_page_finding_open(eng: &Engine) -> bool {
    if eng.finding_open("c06.both_run_ignores_font_page") {
        return true;
    }
    let Ok(txt) = std::fs::read_to_string(eng.verif_dir().join("known_findings.json")) else {
        return false;
    };
    let Ok(v) = icyv::serde_json::from_str::<icyv::serde_json::Value>(&txt) else {
        return false;
    };
    v["findings"].as_array().map_or(false, |fs| {
        fs.iter().any(|f| {
            f["property"] == "C06"
                && f["status"] == "open"
                && ["key", "key_prefix"].iter().any(|k| f[*k].as_str().map_or(false, |s| s.starts_with(FP_KEY_PREFIX) || (!s.is_empty() && FP_KEY_PREFIX.starts_with(s))))
        })
    })
}

fn main() {
    let mut eng = Engine::new("C06");
    let thorough = eng.is_thorough();
    let max_w18: u8 = if thorough { 7 } else { 6 };
    let max_w4: u8 = 10;
    let tol = font_page_finding_open(&eng);
    eng.rule(&format!(
        "rows_3x3x2: every row of width 1..={max_w18} (quick 1..=6, thorough 1..=7) over 3 chars {{' ','A','B'}} x 3 attrs {{07,0F,17}} x 2 font pages, row index -> cells by mixed radix \
         (digit = ch + 3*at + 9*pg, column 0 least significant); rows_3x3: the one-page rows of the same alphabet (radix 9, width 1..=7), saved as single-font files (a rows_3x3x2 block is always a 512-character file); \
         rows_2x2: every row of width 1..=10 over 2 chars x 2 attrs {{07,0F}} (radix 4). One case = a block of up to 512 \
         consecutive row indices of one width saved as one buffer (compression is per row); a failing row is re-checked alone in a 1-row buffer. \
         pictures: generated buffers width 1..=200 (forced 63,64,65,127,128,129) x height 1..=30, rows built from pieces (equal cells, same-char, same-attr, both-changing, page-alternating and random stretches, \
         lengths 1..=130 incl. 62..66 and 126..130) over small alphabets (1..=3 chars/attrs) or the full byte range, 1 or 2 font pages in varying font slots, blink or ice mode, with/without SAUCE; attribute REPRESENTATION per cell (half of the row blocks and most pictures use alternatives): bit 3 stored as colour 8..15 or as colour 0..7 + BOLD, bit 7 in blink mode as background 0..7 or 8..15 + blink flag, \
         blink flag set under ice mode, UNDERLINE flag set (not storable) - mixed inside rows, incl. adjacent equal bytes in different representations and equal colour numbers with different BOLD (classes rep<n>, /reps); 40 % of the pictures and of the row blocks are saved from a buffer whose storage shape was perturbed by icyv::shape::perturb (extra allocated lines, over-long rows, larger layer, \
         different terminal size, combined) which leaves the picture inside the buffer rectangle unchanged (class shape:<name>; a failure that needs the shape carries |shape=<name> in its key). \
         Non-trivial: a case containing a row with a run of >= 3 equal cells or at least two runs of different type in its compressed form. Distinct by case hash (a block counts once; the row totals are printed as '[C06] rows:'). \
         wide_runs: one row of width 255,256,257,300,320,511,512,513,1000,4096,65535 holding blanks, one stretch of each run type (none/char/attr/both) of every length 1..=64 starting where 1,63,64,65,255,256,257,511,512 columns remain, then a filler; \
         the engine's reader refuses widths above 4096 for both encodings alike (documented refusal: there only the specification decoder judges); pictures also draw widths 255..=513, 1000, 4096 (first two rows only). \
         Document state: half of the row blocks and pictures and a quarter of the wide rows set the public Buffer fields font_mode, palette_mode, buffer_type, is_terminal_buffer and ice_mode Unlimited independently of what the cells use (classes state/..; a failure that needs one carries |font_mode=<v> etc. in its key). \
         Row-level handling of the known font-page finding: {}.",
        if tol {
            "ACTIVE (an open entry with key prefix 'ref.cell_mismatch.font_page_bit|run=both' is listed): a row with two adjacent cells equal but for the font page that fails with exactly that key is counted \
             (tolerated_known_font_page, class suffix +known_font_page_rows) and does not fail its block/picture, so the other rows and clauses stay visible; the witness replay is evaluated without this tolerance"
        } else {
            "inactive (no such open entry)"
        }
    ));
    eng.assume("the run-length decoder, header layout and SAUCE tail check in the harness follow doc/FileFormats/x_bin.htm (and the SAUCE rev. 5 record layout) and are the reference");
    eng.assume("the uncompressed encoding of the same buffer is the picture the compressed stream has to reproduce (its own fidelity to the buffer is C05's subject)");
    eng.assume("buffers are single-layer, every cell set and visible, characters <= 0xFF, fonts 8x16 in every used slot, saved with lossles_output = true");

    let (total18, table18) = block_table(18, max_w18);
    let (total4, table4) = block_table(4, max_w4);
    eng.extra("rows_3x3x2_domain", json!({"max_width": max_w18, "rows": table18.iter().map(|t| t.1).sum::<u64>(), "blocks": total18}));
    eng.extra("rows_2x2_domain", json!({"max_width": max_w4, "rows": table4.iter().map(|t| t.1).sum::<u64>(), "blocks": total4}));
    eng.extra("known_font_page_rows_tolerated", json!(tol));

    eng.enumerated(PartCfg::new("rows_3x3x2", 0, 0).exhaustive(true), total18, move |i| make_block(18, &table18, i, tol), check_block);
    // the one-page rows of the 3x3x2 alphabet on their own: inside a rows_3x3x2 block they are saved in 512-character mode
    // (the block uses both pages), where attribute bit 3 is the font page and 07/0F encode alike
    let (total9, table9) = block_table(9, 7);
    eng.extra("rows_3x3_domain", json!({"max_width": 7, "rows": table9.iter().map(|t| t.1).sum::<u64>(), "blocks": total9}));
    eng.enumerated(PartCfg::new("rows_3x3", 0, 0).exhaustive(true), total9, move |i| make_block(9, &table9, i, false), check_block);
    let lens: Vec<u8> = (1..=64).collect();
    let wide = wide_table(&lens);
    eng.extra("wide_runs_domain", json!({"widths": WIDE_WIDTHS, "columns_remaining_at_run_start": WIDE_REMS, "run_types": 4, "lengths": lens.len(), "cases": wide.len()}));
    let wide_n = wide.len() as u64;
    eng.enumerated(PartCfg::new("wide_runs", 0, 0).exhaustive(true), wide_n, move |i| wide[i as usize].clone(), check_wide);
    eng.enumerated(PartCfg::new("rows_2x2", 0, 0).exhaustive(true), total4, move |i| make_block(4, &table4, i, false), check_block);
    eng.generated_min(PartCfg::new("pictures", 600_000, 6_000_000), move || pic_strategy(tol), check_pic, |_| "-".to_string(), minimize_pic);

    unsafe {
        libc::atexit(row_report);
    }
    eng.run();
}
