//! C03 — work per input is bounded by screen size, not by numbers in the input.
//!
//! Every case is a short input (< 64 bytes for the stream parts) instantiated with *large* numbers. It runs in a
//! worker process that measures CPU time (all threads) and peak heap; the supervisor kills it after 6 s.
//! Oracle: CPU(large) <= max(0.5 s, 50 x CPU(same template with the large numbers replaced by the screen size)),
//! peak heap <= 256 MiB, no abort, no hang.
use icy_engine::{Buffer, TextPane};
use icyv::alloc;
use icyv::proptest::prelude::*;
use icyv::stream;
use icyv::util::Bytes;
use icyv::{panics, Engine, PartCfg, Verdict};
use serde::{Deserialize, Serialize};
use std::path::PathBuf;

const CPU_LIMIT_US: u64 = 500_000;
const HEAP_LIMIT: u64 = 256 << 20;
const LARGE: [u32; 3] = [1 << 16, 1_000_000, i32::MAX as u32];

#[derive(Clone, Debug, Hash, Serialize, Deserialize)]
struct Case {
    /// family label: the root-cause class used in failure keys
    family: String,
    /// 0 = empty screen, 1 = full screen + scrollback + margins, 2 = printable just written; 9 = file load
    prefix: u8,
    emu: u8,
    /// the input with large numbers
    large: Bytes,
    /// the same template with the large numbers replaced by the screen size (empty = no baseline)
    base: Bytes,
    /// file extension for loader cases ("" = stream case)
    ext: String,
    /// set by the enumerator when the family has a listed open finding (represented by its witness only); never set in replay files
    #[serde(default)]
    skip: bool,
}

const W: i32 = 80;
const H: i32 = 25;

fn prefix_bytes(p: u8) -> Vec<u8> {
    match p {
        1 => {
            let mut v = Vec::new();
            for i in 0..(H + 100) {
                v.extend_from_slice(format!("line {i} ").as_bytes());
                v.extend(std::iter::repeat(b'#').take(60));
                v.extend_from_slice(b"\r\n");
            }
            v.extend_from_slice(b"\x1b[5;20r\x1b[10;10H");
            v
        }
        2 => b"\x1b[3;3HX".to_vec(),
        _ => Vec::new(),
    }
}

fn run_stream(emu: u8, prefix: u8, data: &[u8]) -> Result<(u64, u64), (String, String)> {
    let (mut buf, mut caret) = stream::make_terminal(W, H, 1);
    let mut parser = stream::make_parser(emu);
    for b in prefix_bytes(prefix) {
        let _ = parser.print_char(&mut buf, 0, &mut caret, b as char);
    }
    alloc::reset_peak();
    let live0 = alloc::live();
    let t0 = alloc::cpu_us();
    let r = panics::guarded(|| {
        for b in data {
            let _ = parser.print_char(&mut buf, 0, &mut caret, *b as char);
        }
        // wait for background decodes: their work counts
        let mut spins = 0u32;
        while !buf.sixel_threads.is_empty() && spins < 100_000 {
            let _ = buf.update_sixel_threads();
            if !buf.sixel_threads.is_empty() {
                std::thread::sleep(std::time::Duration::from_micros(200));
            }
            spins += 1;
        }
    });
    let cpu = alloc::cpu_us().saturating_sub(t0);
    let peak = alloc::peak().saturating_sub(live0) as u64;
    let _ = buf.get_height();
    r.map(|()| (cpu, peak))
}

fn run_file(ext: &str, data: &[u8]) -> Result<(u64, u64), (String, String)> {
    alloc::reset_peak();
    let live0 = alloc::live();
    let t0 = alloc::cpu_us();
    let r = panics::guarded(|| match ext {
        "psf" => {
            let _ = icy_engine::BitFont::from_bytes("f", data);
        }
        "tdf" => {
            let _ = icy_engine::TheDrawFont::from_tdf_bytes(data);
        }
        _ => {
            let _ = Buffer::from_bytes(&PathBuf::from(format!("x.{ext}")), true, data);
        }
    });
    let cpu = alloc::cpu_us().saturating_sub(t0);
    let peak = alloc::peak().saturating_sub(live0) as u64;
    r.map(|()| (cpu, peak))
}

fn check(c: &Case) -> Verdict {
    if c.skip {
        return Verdict::discard("steered away: family has a listed open finding");
    }
    let run = |d: &[u8]| if c.ext.is_empty() { run_stream(c.emu, c.prefix, d) } else { run_file(&c.ext, d) };
    let (cpu, peak) = match run(&c.large) {
        Ok(v) => v,
        // a panic is C01/C02's subject, not a work bound
        Err(_) => return Verdict::pass(false, "ended_by_panic(C01/C02)"),
    };
    if peak > HEAP_LIMIT {
        return Verdict::fail(format!("work.heap|{}", c.family), format!("peak heap {} MiB for a {}-byte input", peak >> 20, c.large.len()));
    }
    if cpu > CPU_LIMIT_US / 2 {
        // compare with the baseline; re-measure twice to rule out scheduling noise
        let base = if c.base.is_empty() { 0 } else { run(&c.base).map(|v| v.0).unwrap_or(0) };
        let limit = CPU_LIMIT_US.max(50 * base);
        let again1 = run(&c.large).map(|v| v.0).unwrap_or(0);
        let again2 = run(&c.large).map(|v| v.0).unwrap_or(0);
        let best = cpu.min(again1).min(again2);
        if best > limit {
            return Verdict::fail(format!("work.cpu|{}", c.family), format!("{} ms CPU (3 runs, fastest) for a {}-byte input; same template at screen size: {} ms", best / 1000, c.large.len(), base / 1000));
        }
    }
    Verdict::pass(true, c.family.split('|').next().unwrap_or("?").to_string())
}

fn classify(c: &Case) -> String {
    c.family.clone()
}

// ------------------------------------------------------------------------------------------
// (i) the control-function table

const INTERS: [&str; 8] = ["", " ", "$", "*", "?", "=", "!", "<"];
const VALUES: [u32; 6] = [0, 1, 0xFFFF_FFFE /* placeholder: screen size */, 1 << 16, 1_000_000, i32::MAX as u32];

fn is_large(v: u32) -> bool {
    v >= (1 << 16) && v != 0xFFFF_FFFE
}

/// the parameter lists of the table: all lists of length <= 2 over VALUES; lengths 3..=6 with exactly one large position
fn param_lists(thorough: bool) -> Vec<Vec<u32>> {
    let mut out: Vec<Vec<u32>> = vec![vec![]];
    for a in VALUES {
        out.push(vec![a]);
        for b in VALUES {
            out.push(vec![a, b]);
        }
    }
    for k in 3..=6usize {
        for pos in 0..k {
            for l in LARGE {
                let fills: Vec<Vec<u32>> = if thorough {
                    // all {1,size} fillings of the other positions
                    (0..(1u32 << (k - 1))).map(|m| (0..k - 1).map(|i| if m & (1 << i) != 0 { 0xFFFF_FFFE } else { 1 }).collect()).collect()
                } else {
                    vec![vec![1; k - 1], vec![0xFFFF_FFFE; k - 1]]
                };
                for f in fills {
                    let mut v = f.clone();
                    v.insert(pos, l);
                    out.push(v);
                }
            }
        }
    }
    out
}

fn render_csi(inter: &str, fin: u8, ps: &[u32], size_for: impl Fn(usize) -> u32, replace_large: bool) -> Vec<u8> {
    let mut v = b"\x1b[".to_vec();
    let (pre, mid) = match inter {
        "?" | "=" | "!" | "<" => (inter, ""),
        o => ("", o),
    };
    v.extend_from_slice(pre.as_bytes());
    for (i, p) in ps.iter().enumerate() {
        if i > 0 {
            v.push(b';');
        }
        let val = if *p == 0xFFFF_FFFE || (replace_large && is_large(*p)) { size_for(i) } else { *p };
        v.extend_from_slice(val.to_string().as_bytes());
    }
    v.extend_from_slice(mid.as_bytes());
    v.push(fin);
    v
}

fn csi_case(lists: &[Vec<u32>], idx: u64) -> Case {
    let nl = lists.len() as u64;
    let prefix = (idx % 3) as u8;
    let li = ((idx / 3) % nl) as usize;
    let rest = idx / 3 / nl;
    let inter = INTERS[(rest % 8) as usize];
    let fin = 0x40 + (rest / 8) as u8;
    let ps = &lists[li];
    let size_for = |i: usize| if i % 2 == 0 { H as u32 } else { W as u32 };
    let large = render_csi(inter, fin, ps, size_for, false);
    let base = render_csi(inter, fin, ps, size_for, true);
    let pos: Vec<String> = ps.iter().enumerate().filter(|(_, p)| is_large(**p)).map(|(i, _)| i.to_string()).collect();
    let family = format!("csi|{}{}", inter.replace(' ', "SP"), fin as char);
    Case { family, prefix, emu: 0, base: Bytes(if pos.is_empty() { Vec::new() } else { base }), large: Bytes(large), ext: String::new(), skip: false }
}

// ------------------------------------------------------------------------------------------
// (ii)..(v) other stream families

fn hex(s: &[u8]) -> String {
    s.iter().map(|b| format!("{b:02X}")).collect()
}

fn other_stream_cases() -> Vec<Case> {
    let mut v: Vec<Case> = Vec::new();
    let mut add = |family: &str, emu: u8, prefix: u8, large: Vec<u8>, base: Vec<u8>| {
        v.push(Case { family: family.to_string(), prefix, emu, large: Bytes(large), base: Bytes(base), ext: String::new(), skip: false });
    };
    let sizes: [u32; 4] = [H as u32, 1 << 16, 1_000_000, i32::MAX as u32];
    // macros: self recursion, mutual recursion (depth 2 and 3), fan-out, nested invoke inside DCS
    add("macro|self_recursive_hex", 0, 0, format!("\x1bP0;0;1!z{}\x1b\\\x1b[0*z", hex(b"\x1b[0*z")).into_bytes(), Vec::new());
    add("macro|self_recursive_twice_hex", 0, 0, format!("\x1bP0;0;1!z{}\x1b\\\x1b[0*z", hex(b"\x1b[0*z\x1b[0*z")).into_bytes(), Vec::new());
    add(
        "macro|mutual_recursion_2",
        0,
        0,
        format!("\x1bP0;0;1!z{}\x1b\\\x1bP1;0;1!z{}\x1b\\\x1b[0*z", hex(b"\x1b[1*z"), hex(b"\x1b[0*z")).into_bytes(),
        Vec::new(),
    );
    add(
        "macro|mutual_recursion_3",
        0,
        0,
        format!("\x1bP0;0;1!z{}\x1b\\\x1bP1;0;1!z{}\x1b\\\x1bP2;0;1!z{}\x1b\\\x1b[0*z", hex(b"\x1b[1*z"), hex(b"\x1b[2*z"), hex(b"\x1b[0*z")).into_bytes(),
        Vec::new(),
    );
    add("macro|self_recursive_in_dcs", 0, 0, format!("\x1bP0;0;1!z{}\x1b\\\x1bP0;0;0!zx\x1b[0*zy\x1b\\", hex(b"\x1bP\x1b[0*z\x1b\\")).into_bytes(), Vec::new());
    // macro k invokes macro k-1 twice: work/memory double with every definition (n bytes of input -> 2^(n/25) output)
    for depth in [6usize, 12, 18, 24, 30] {
        let mut sq = b"\x1bP0;0;0!zAB\x1b\\".to_vec();
        for k in 1..=depth {
            sq.extend_from_slice(format!("\x1bP{k};0;0!z\x1b[{p}*z\x1b[{p}*z\x1b\\", p = k - 1).as_bytes());
        }
        sq.extend_from_slice(format!("\x1b[{depth}*z").as_bytes());
        add("macro|definition_doubling", 0, 0, sq, Vec::new());
    }
    for n in sizes {
        // hex repeat groups: the stored macro grows with n; invocation replays it
        add("macro|hex_repeat_count", 0, 0, format!("\x1bP0;0;1!z!{n};41;\x1b\\\x1b[0*z").into_bytes(), format!("\x1bP0;0;1!z!{H};41;\x1b\\\x1b[0*z").into_bytes());
        add("macro|hex_repeat_of_invocation", 0, 0, format!("\x1bP0;0;1!z!{n};{};\x1b\\\x1b[0*z", hex(b"\x1b[0*z")).into_bytes(), format!("\x1bP0;0;1!z!2;{};\x1b\\\x1b[0*z", hex(b"\x1b[0*z")).into_bytes());
        add("macro|id_magnitude", 0, 0, format!("\x1bP{n};0;0!zabc\x1b\\\x1b[{n}*z").into_bytes(), format!("\x1bP{H};0;0!zabc\x1b\\\x1b[{H}*z").into_bytes());
        // sixel
        for (fam, tpl) in [
            ("sixel|raster_width", "\x1bPq\"1;1;{n};6~~\x1b\\"),
            ("sixel|raster_height", "\x1bPq\"1;1;6;{n}~~\x1b\\"),
            ("sixel|raster_both", "\x1bPq\"1;1;{n};{n}~~\x1b\\"),
            ("sixel|raster_3_numbers", "\x1bPq\"1;1;{n}~~\x1b\\"),
            ("sixel|repeat", "\x1bPq!{n}~\x1b\\"),
            ("sixel|repeat_transparent", "\x1bPq!{n}?\x1b\\"),
            ("sixel|colour_register_select", "\x1bPq#{n}~\x1b\\"),
            ("sixel|colour_register_define", "\x1bPq#{n};2;50;50;50~\x1b\\"),
            ("sixel|dcs_params", "\x1bP{n};{n};{n}q~\x1b\\"),
        ] {
            add(fam, 0, 0, tpl.replace("{n}", &n.to_string()).into_bytes(), tpl.replace("{n}", &H.to_string()).into_bytes());
        }
        // OSC palette index, music numbers
        add("osc|palette_index", 0, 0, format!("\x1b]4;{n};rgb:10/20/30\x1b\\").into_bytes(), format!("\x1b]4;{H};rgb:10/20/30\x1b\\").into_bytes());
        add("music|numbers", 1, 0, format!("\x1b[MT{n}L{n}O3C{n}P{n}\x0e").into_bytes(), format!("\x1b[MT{H}L{H}O3C{H}P{H}\x0e").into_bytes());
        // font selection / custom font slot number
        add("font|slot_number", 0, 0, format!("\x1bPCTerm:Font:{n}:AAAA\x1b\\").into_bytes(), format!("\x1bPCTerm:Font:{H}:AAAA\x1b\\").into_bytes());
    }
    // avatar / ctrl-a / pcboard repeat-like codes (bounded by a byte, kept for completeness)
    for n in [0u8, 1, 25, 80, 255] {
        add("avatar|repeat", 5, 1, vec![0x19, b'x', n], Vec::new());
        add("avatar|repeat_of_formfeed", 5, 1, vec![0x19, 0x0C, n], Vec::new());
        add("avatar|repeat_of_lf", 5, 1, vec![0x19, 0x0A, n], Vec::new());
        add("ctrla|cursor_right", 7, 1, vec![1, n.max(128)], Vec::new());
    }
    // custom-font DCS payloads: PSF1 with charsize 0/1/255, PSF2 with length x charsize extremes, raw sizes
    for charsize in [0u8, 1, 255] {
        for mode in [0u8, 1] {
            let mut d = vec![0x36, 0x04, mode, charsize];
            d.extend(std::iter::repeat(0xAA).take(24));
            let mut s = b"\x1bPCTerm:Font:1:".to_vec();
            s.extend(stream::b64(&d));
            s.extend_from_slice(b"\x1b\\");
            add(&format!("font|psf1_charsize_{charsize}"), 0, 0, s, Vec::new());
        }
    }
    for (len, cs, hh) in [(0u32, 0u32, 0u32), (u32::MAX, 1, 1), (1, u32::MAX, 16), (0x10000, 0x10000, 16), (256, 16, 0), (256, 16, u32::MAX), (0x7FFF_FFFF, 2, 2), (1, 1, 0)] {
        let mut d = vec![0x72, 0xb5, 0x4a, 0x86];
        for f in [0u32, 32, 0, len, cs, hh, 8] {
            d.extend_from_slice(&f.to_le_bytes());
        }
        let mut s = b"\x1bPCTerm:Font:1:".to_vec();
        s.extend(stream::b64(&d));
        s.extend_from_slice(b"\x1b\\");
        add("font|psf2_header_extremes", 0, 0, s, Vec::new());
    }
    v
}

// ------------------------------------------------------------------------------------------
// (vi) binary files with header fields set to extremes

fn golden(ext: &str) -> Vec<u8> {
    let mut buf = Buffer::new((80, 4));
    for y in 0..4 {
        for x in 0..80 {
            let ch = icy_engine::AttributedChar::new((b'a' + ((x + y) % 7) as u8) as char, icy_engine::TextAttribute::from_u8((x as u8) ^ (y as u8 * 17), icy_engine::IceMode::Ice));
            buf.layers[0].set_char((x, y), ch);
        }
    }
    if ext == "idf" || ext == "adf" {
        buf.ice_mode = icy_engine::IceMode::Ice;
    }
    let mut o = icy_engine::SaveOptions::new();
    o.lossles_output = true;
    o.compress = true;
    o.save_sauce = matches!(ext, "bin" | "tnd");
    buf.to_bytes(ext, &o).unwrap_or_default()
}

const PATTERNS: [&[u8]; 9] = [&[0], &[1], &[0x7F], &[0x80], &[0xFF], &[0xFF, 0xFF], &[0, 0], &[0xFF, 0xFF, 0xFF, 0xFF], &[0xFF, 0xFF, 0xFF, 0x7F]];
const FILE_EXTS: [&str; 7] = ["xb", "adf", "idf", "tnd", "bin", "psf", "tdf"];

fn golden_all() -> Vec<Vec<u8>> {
    FILE_EXTS
        .iter()
        .map(|e| match *e {
            "psf" => icy_engine::BitFont::default().to_psf2_bytes().unwrap_or_default(),
            "tdf" => {
                let mut f = icy_engine::TheDrawFont::new("TEST", icy_engine::FontType::Block, 1);
                f.set_glyph('A', icy_engine::FontGlyph { size: (3, 2).into(), data: b"abc\rdef".to_vec() });
                f.as_tdf_bytes().unwrap_or_default()
            }
            e => golden(e),
        })
        .collect()
}

fn file_case(goldens: &[Vec<u8>], idx: u64) -> Case {
    let np = PATTERNS.len() as u64;
    let pat = PATTERNS[(idx % np) as usize];
    let rest = idx / np;
    let ei = (rest % FILE_EXTS.len() as u64) as usize;
    let off = (rest / FILE_EXTS.len() as u64) as usize;
    let mut d = goldens[ei].clone();
    // offsets beyond the header region address the tail (SAUCE record / last data bytes)
    let pos = if off < 64 { off } else { d.len().saturating_sub(off - 63) };
    let mut region = "head";
    if off >= 64 {
        region = "tail";
    }
    for (i, b) in pat.iter().enumerate() {
        if pos + i < d.len() {
            d[pos + i] = *b;
        }
    }
    Case { family: format!("file|{}|{}", FILE_EXTS[ei], region), prefix: 9, emu: 0, large: Bytes(d), base: Bytes(goldens[ei].clone()), ext: FILE_EXTS[ei].to_string(), skip: false }
}

// ------------------------------------------------------------------------------------------
// (vi-b) IcyDraw: the document parts travel base64-encoded in zTXt chunks of a PNG; extremes are written into the records

fn icy_unwrap(file: &[u8]) -> Vec<(String, Vec<u8>)> {
    use base64::{engine::general_purpose, Engine as _};
    let mut out = Vec::new();
    if let Ok(reader) = png::Decoder::new(file).read_info() {
        for c in &reader.info().compressed_latin1_text {
            if let Ok(text) = c.get_text() {
                if let Ok(data) = general_purpose::STANDARD.decode(text) {
                    out.push((c.keyword.clone(), data));
                }
            }
        }
    }
    out
}

fn icy_wrap(chunks: &[(String, Vec<u8>)]) -> Vec<u8> {
    use base64::{engine::general_purpose, Engine as _};
    let mut out = Vec::new();
    {
        let mut enc = png::Encoder::new(&mut out, 1, 1);
        enc.set_color(png::ColorType::Rgba);
        enc.set_depth(png::BitDepth::Eight);
        enc.set_compression(png::Compression::Fast);
        for (k, d) in chunks {
            let _ = enc.add_ztxt_chunk(k.clone(), general_purpose::STANDARD.encode(d));
        }
        if let Ok(mut w) = enc.write_header() {
            let _ = w.write_image_data(&[0, 0, 0, 0]);
            let _ = w.finish();
        }
    }
    out
}

fn icy_golden_chunks() -> Vec<(String, Vec<u8>)> {
    let mut buf = Buffer::new((20, 4));
    for x in 0..20 {
        buf.layers[0].set_char((x, 1), icy_engine::AttributedChar::new((b'a' + (x % 7) as u8) as char, icy_engine::TextAttribute::from_u8(x as u8 + 1, icy_engine::IceMode::Ice)));
    }
    let mut l = icy_engine::Layer::new("second", (6, 3));
    l.properties.has_alpha_channel = true;
    l.set_char((1, 1), icy_engine::AttributedChar::new('Z', icy_engine::TextAttribute::from_u8(0x1E, icy_engine::IceMode::Ice)));
    buf.layers.push(l);
    let mut o = icy_engine::SaveOptions::new();
    o.lossles_output = true;
    icy_unwrap(&buf.to_bytes("icy", &o).unwrap_or_default())
}

const ICY_PATTERNS: [&[u8]; 6] = [&[0xFF, 0xFF, 0xFF, 0x7F], &[0xFF, 0xFF, 0xFF, 0xFF], &[0, 0, 1, 0], &[0, 0, 0, 0x40], &[0xFF], &[0]];

fn icy_case(chunks: &[(String, Vec<u8>)], idx: u64) -> Case {
    let np = ICY_PATTERNS.len() as u64;
    let pat = ICY_PATTERNS[(idx % np) as usize];
    let rest = idx / np;
    let off = (rest % 96) as usize;
    let ci = (rest / 96) as usize % chunks.len().max(1);
    let mut cs = chunks.to_vec();
    let mut key: String = cs[ci].0.chars().filter(|c| !c.is_ascii_digit()).collect();
    if key.starts_with("LAYER_") && cs[ci].1.len() >= 4 {
        // name the field of the layer record the overwrite starts in (layout: ICEDFormat.md / icy_draw.rs)
        let title_len = u32::from_le_bytes([cs[ci].1[0], cs[ci].1[1], cs[ci].1[2], cs[ci].1[3]]) as usize;
        let rel = off as i64 - (4 + title_len) as i64;
        let field = match rel {
            i64::MIN..=-1 => "title",
            0 => "role",
            1..=4 => "unused",
            5 => "mode",
            6..=9 => "color",
            10..=13 => "flags",
            14 => "transparency",
            15..=22 => "offset",
            23..=30 => "size",
            31..=32 => "font_page",
            33..=40 => "data_length",
            _ => "cells",
        };
        key = format!("{key}{field}");
    }
    for (i, b) in pat.iter().enumerate() {
        if off + i < cs[ci].1.len() {
            cs[ci].1[off + i] = *b;
        }
    }
    Case { family: format!("file|icy|{key}"), prefix: 9, emu: 0, large: Bytes(icy_wrap(&cs)), base: Bytes(icy_wrap(chunks)), ext: "icy".to_string(), skip: false }
}

fn main() {
    let mut eng = Engine::new("C03");
    eng.rule(
        "csi_table: 63 finals x 8 intermediates x parameter lists over {0,1,size,2^16,10^6,2^31-1} (all lists of length <=2; lengths 3..6 with exactly one large position, others 1 or size) x 3 screen \
         prefixes (empty, full+scrollback+margins, printable just written); other_streams: macro recursion/repeat/fan-out, sixel raster/repeat/colour registers, OSC, music, custom-font DCS payloads, Avatar/Ctrl-A \
         repeats; files: golden xb/adf/idf/tnd/bin/psf/tdf files with 1-4 header or tail bytes set to extremes; icy_record_fields: every byte offset 0..96 of every zTXt record of a golden IcyDraw file overwritten with 1-4 byte extremes; psf2_headers: all combinations of extreme PSF2 header fields; csi_pairs: state-setting sequences carrying 2^16 / 10^6 / 2^31-1 (margins, scroll regions, single-edge margin updates, origin mode, far tab stop, far cursor, text-area resize), alone and on a screen that already has a left/right or four-parameter region, each followed by every control function (63 finals x 8 intermediates x {no parameter, 1, 25, 2^31-1}) and by line feeds / a long printable run / index and reverse index; csi_documents: the same table with lists of length <= 2, followed by a printed character and a line, loaded as an .ans DOCUMENT on an empty document and after two lines of text; stored_numbers: 18 sequences that store 10^6 / 2^31-1 (macro id, font slot, tab stop, saved cursor, palette index, hyperlink id) each followed by every control function with every selector 0..=99 (alone and as `sel;1`); random_numbers: generated CSI/DCS sequences with random magnitudes. Each input runs in a \
         worker: CPU (all threads) <= max(0.5 s, 50 x CPU of the same template at screen size), peak heap <= 256 MiB, no abort, no answer within 6 s = hang. Non-trivial: the case ran to completion \
         under measurement (not ended by a panic); distinct by case hash.",
    );
    eng.assume("CPU time is the work measure; a loop of 10^6 cheap iterations (< 0.5 s) is below detection");
    eng.assume("panics are C01/C02's subject and end a case without verdict");

    let thorough = eng.is_thorough();
    // families with a listed open finding are represented by their witness only (each hanging case costs a 6 s kill)
    let steer: Vec<(String, bool)> = KNOWN_FAMILIES.iter().map(|(fam, id)| (fam.to_string(), eng.finding_open(id))).collect();
    let steered = move |family: &str| steer.iter().any(|(f, open)| *open && family.starts_with(f.as_str()));

    let lists = param_lists(thorough);
    let total = 63 * 8 * lists.len() as u64 * 3;
    let lists2 = lists.clone();
    let st1 = steered.clone();
    eng.enumerated_with_class(
        PartCfg::new("csi_table", 0, 0).isolated().timeout_ms(6_000).hang_is_violation(true).heap_cap(2 << 30).exhaustive(true),
        total,
        move |i| {
            let mut c = csi_case(&lists2, i);
            c.skip = st1(&c.family);
            c
        },
        check,
        classify,
    );

    let others = other_stream_cases();
    let n_others = others.len() as u64;
    let st2 = steered.clone();
    eng.enumerated_with_class(
        PartCfg::new("other_streams", 0, 0).isolated().timeout_ms(6_000).hang_is_violation(true).heap_cap(2 << 30).exhaustive(true),
        n_others,
        move |i| {
            let mut c = others[i as usize].clone();
            c.skip = st2(&c.family);
            c
        },
        check,
        classify,
    );

    let goldens = golden_all();
    let max_tail = 140u64;
    let n_files = (64 + max_tail) * FILE_EXTS.len() as u64 * PATTERNS.len() as u64;
    let st3 = steered.clone();
    eng.enumerated_with_class(
        PartCfg::new("files", 0, 0).isolated().timeout_ms(6_000).hang_is_violation(true).heap_cap(2 << 30).exhaustive(true),
        n_files,
        move |i| {
            let mut c = file_case(&goldens, i);
            c.skip = st3(&c.family);
            c
        },
        check,
        classify,
    );

    // state-setting sequences with large numbers, each followed by every control function with small parameters:
    // the work of the SECOND sequence must not depend on the numbers of the first
    let setters: Vec<(&'static str, String)> = {
        let mut v = Vec::new();
        for n in LARGE {
            v.push(("margins_tb_bottom", format!("\x1b[1;{n}r")));
            v.push(("margins_tb_both", format!("\x1b[{n};{n}r")));
            v.push(("margins_tb_single", format!("\x1b[{n}r")));
            v.push(("margins_lr_right", format!("\x1b[?69h\x1b[1;{n}s")));
            v.push(("margins_lr_both", format!("\x1b[?69h\x1b[{n};{n}s")));
            v.push(("scroll_region_4", format!("\x1b[1;{n};1;{n}r")));
            v.push(("scroll_region_3", format!("\x1b[1;{n};1r")));
            for k in 0..4 {
                v.push(("specific_margin", format!("\x1b[={k};{n}m")));
            }
            v.push(("origin_mode+margins", format!("\x1b[1;{n}r\x1b[?6h")));
            v.push(("tab_far_right", format!("\x1b[{n}G\x1bH\x1b[1G")));
            v.push(("cursor_far", format!("\x1b[{n};{n}H")));
            // text-area resize: the clamps of the scroll / insert / delete functions are relative to the terminal size
            v.push(("resize_rows", format!("\x1b[8;{n};80t")));
            v.push(("resize_columns", format!("\x1b[8;25;{n}t")));
            v.push(("resize_both", format!("\x1b[8;{n};{n}t")));
        }
        // the same setters on a screen that already has a left/right region (and a top/bottom one): single-edge updates of an existing region
        let plain = v.clone();
        for (name, s) in &plain {
            if name.starts_with("specific_margin") || name.starts_with("margins") || name.starts_with("scroll_region") || name.starts_with("origin") {
                v.push(("after_lr_region", format!("\x1b[?69h\x1b[10;70s{s}")));
                v.push(("after_4_param_region", format!("\x1b[5;20;10;70r{s}")));
            }
        }
        v
    };
    let n_set = setters.len() as u64;
    let st6 = steered.clone();
    eng.enumerated_with_class(
        PartCfg::new("csi_pairs", 0, 0).isolated().timeout_ms(6_000).hang_is_violation(true).heap_cap(2 << 30).exhaustive(true),
        n_set * 63 * 8 * 4 + n_set * 3,
        move |i| {
            let main = n_set * 63 * 8 * 4;
            let (si, action): (usize, Vec<u8>) = if i < main {
                let si = (i % n_set) as usize;
                let r = i / n_set;
                let pv = r % 4;
                let inter = INTERS[((r / 4) % 8) as usize];
                let fin = 0x40 + (r / 32) as u8;
                let ps: Vec<u32> = match pv {
                    0 => vec![],
                    1 => vec![1],
                    2 => vec![H as u32],
                    // a huge count as well: every clamp of the second sequence is relative to state the first one set
                    // (REP's count stays small: its run time is the open finding C03-rep-unbounded)
                    _ if fin == b'b' && inter.is_empty() => vec![H as u32],
                    _ => vec![i32::MAX as u32],
                };
                (si, render_csi(inter, fin, &ps, |_| H as u32, false))
            } else {
                let j = i - main;
                let si = (j % n_set) as usize;
                let a = match j / n_set {
                    0 => b"\n\n\n".to_vec(),
                    1 => vec![b'x'; 200],
                    _ => b"\x1bM\x1bM\x1bD\x1bE".to_vec(),
                };
                (si, a)
            };
            let (name, setter) = &setters[si];
            let mut large = setter.clone().into_bytes();
            large.extend_from_slice(&action);
            // baseline: the same pair with the screen size in place of the large number
            let mut base = setter.replace("65536", "25").replace("1000000", "25").replace("2147483647", "25").into_bytes();
            base.extend_from_slice(&action);
            let mut c = Case { family: format!("pair|{name}"), prefix: (i % 2) as u8, emu: 0, large: Bytes(large), base: Bytes(base), ext: String::new(), skip: false };
            c.skip = st6(&c.family);
            c
        },
        check,
        classify,
    );

    // numbers that an earlier sequence STORED (a macro id, a font slot, a tab stop, a saved cursor, a palette index, a hyperlink id)
    // must not become the loop bound of a later report / selection / reset: every control function with every selector 0..=99
    // (alone and as `sel;1`) after each storing sequence
    let storers: Vec<(&'static str, String)> = {
        let mut v = Vec::new();
        for n in [1_000_000u32, i32::MAX as u32] {
            v.push(("macro_id", format!("\x1bP{n};0;0!zx\x1b\\")));
            v.push(("macro_id_hex", format!("\x1bP{n};0;1!z41\x1b\\")));
            v.push(("font_slot_selected", format!("\x1b[0;{n} D")));
            v.push(("font_slot_selected_1", format!("\x1b[1;{n} D")));
            v.push(("tab_stop_far", format!("\x1b[{n}G\x1bH\x1b[1G")));
            v.push(("saved_cursor_far", format!("\x1b[{n};{n}H\x1b[s\x1b7\x1b[H")));
            v.push(("palette_index", format!("\x1b]4;{n};rgb:11/22/33\x1b\\")));
            v.push(("hyperlink_id", format!("\x1b]8;id={n};http://x\x1b\\")));
            v.push(("macro_invoke_unknown", format!("\x1b[{n}*z")));
        }
        v
    };
    let n_st = storers.len() as u64;
    let st7 = steered.clone();
    eng.enumerated_with_class(
        PartCfg::new("stored_numbers", 0, 0).isolated().timeout_ms(6_000).hang_is_violation(true).heap_cap(2 << 30).exhaustive(true),
        n_st * 63 * 8 * 200,
        move |i| {
            let si = (i % n_st) as usize;
            let r = i / n_st;
            let sel = (r % 100) as u32;
            let with_second = (r / 100) % 2 == 1;
            let inter = INTERS[((r / 200) % 8) as usize];
            let fin = 0x40 + (r / 1600) as u8;
            let ps: Vec<u32> = if with_second { vec![sel, 1] } else { vec![sel] };
            let action = render_csi(inter, fin, &ps, |_| H as u32, false);
            let (name, setter) = &storers[si];
            let mut large = setter.clone().into_bytes();
            large.extend_from_slice(&action);
            let mut base = setter.replace("1000000", "25").replace("2147483647", "25").into_bytes();
            base.extend_from_slice(&action);
            let mut c = Case { family: format!("stored|{name}"), prefix: 0, emu: 0, large: Bytes(large), base: Bytes(base), ext: String::new(), skip: false };
            c.skip = st7(&c.family);
            c
        },
        check,
        classify,
    );

    // the control-function table once more, as an ANSI DOCUMENT (Buffer::from_bytes, is_terminal_buffer = false): a document has no
    // screen that clamps the cursor, so a different set of bounds applies than in the terminal
    let doc_lists: Vec<Vec<u32>> = lists.iter().filter(|l| l.len() <= 2).cloned().collect();
    let n_doc = doc_lists.len() as u64;
    let st8 = steered.clone();
    eng.enumerated_with_class(
        PartCfg::new("csi_documents", 0, 0).isolated().timeout_ms(6_000).hang_is_violation(true).heap_cap(2 << 30).exhaustive(true),
        63 * 8 * n_doc * 2,
        move |i| {
            let with_text = i % 2 == 1;
            let li = ((i / 2) % n_doc) as usize;
            let rest = i / 2 / n_doc;
            let inter = INTERS[(rest % 8) as usize];
            let fin = 0x40 + (rest / 8) as u8;
            let ps = &doc_lists[li];
            let size_for = |i: usize| if i % 2 == 0 { H as u32 } else { W as u32 };
            let wrap = |seq: Vec<u8>| {
                let mut v = if with_text { b"some text\r\nmore text\r\n".to_vec() } else { Vec::new() };
                v.extend(seq);
                v.extend_from_slice(b"x\r\ny");
                v
            };
            let large = wrap(render_csi(inter, fin, ps, size_for, false));
            let any_large = ps.iter().any(|p| is_large(*p));
            let base = if any_large { wrap(render_csi(inter, fin, ps, size_for, true)) } else { Vec::new() };
            let mut c = Case { family: format!("doc|csi|{}{}", inter.replace(' ', "SP"), fin as char), prefix: 9, emu: 0, large: Bytes(large), base: Bytes(base), ext: "ans".to_string(), skip: false };
            c.skip = st8(&c.family);
            c
        },
        check,
        classify,
    );

    let icy_chunks = icy_golden_chunks();
    let n_icy = (icy_chunks.len() as u64) * 96 * ICY_PATTERNS.len() as u64;
    let st5 = steered.clone();
    eng.enumerated_with_class(
        PartCfg::new("icy_record_fields", 0, 0).isolated().timeout_ms(6_000).hang_is_violation(true).heap_cap(2 << 30).exhaustive(true),
        n_icy,
        move |i| {
            let mut c = icy_case(&icy_chunks, i);
            c.skip = st5(&c.family);
            c
        },
        check,
        classify,
    );

    // PSF2 headers: every combination of extreme header fields, with as much glyph data appended as the header asks for (up to 64 KiB)
    const PSF_VALUES: [u32; 8] = [0, 1, 16, 255, 256, 0x1_0000, 0x7FFF_FFFF, 0xFFFF_FFFF];
    const PSF_HEADERSIZES: [u32; 4] = [0, 32, 33, 0xFFFF_FFFF];
    eng.enumerated_with_class(
        PartCfg::new("psf2_headers", 0, 0).isolated().timeout_ms(6_000).hang_is_violation(true).heap_cap(2 << 30).exhaustive(true),
        4 * 8 * 8 * 8 * 8,
        |i| {
            let hs = PSF_HEADERSIZES[(i % 4) as usize];
            let length = PSF_VALUES[((i / 4) % 8) as usize];
            let charsize = PSF_VALUES[((i / 32) % 8) as usize];
            let height = PSF_VALUES[((i / 256) % 8) as usize];
            let width = PSF_VALUES[((i / 2048) % 8) as usize];
            let mut d = vec![0x72, 0xb5, 0x4a, 0x86];
            for f in [0u32, hs, 0, length, charsize, height, width] {
                d.extend_from_slice(&f.to_le_bytes());
            }
            let want = (length as u64).saturating_mul(charsize as u64).saturating_add(hs as u64).saturating_sub(32);
            if want <= 65_536 {
                d.extend(std::iter::repeat(0x5A).take(want as usize));
            }
            Case { family: "font|psf2_header_fields".to_string(), prefix: 9, emu: 0, large: Bytes(d), base: Bytes(Vec::new()), ext: "psf".to_string(), skip: false }
        },
        check,
        classify,
    );

    // random magnitudes: CSI with any final/intermediate and 0..6 numbers of any magnitude
    let st4 = steered;
    eng.generated_with_class(
        PartCfg::new("random_numbers", 300_000, 6_000_000).isolated().timeout_ms(6_000).hang_is_violation(true).heap_cap(2 << 30),
        || {
            let num = prop_oneof![3 => 0u32..=100, 1 => 0u32..=70_000, 1 => any::<u32>().prop_map(|v| v & 0x7FFF_FFFF), 1 => Just(i32::MAX as u32), 1 => 100_000u32..=5_000_000];
            (0usize..8, 0x40u8..=0x7E, proptest::collection::vec(num, 0..=6), 0u8..3)
                .prop_map(|(ii, fin, ps, prefix)| {
                    let inter = INTERS[ii];
                    let size_for = |i: usize| if i % 2 == 0 { H as u32 } else { W as u32 };
                    let large = render_csi(inter, fin, &ps, size_for, false);
                    let based: Vec<u32> = ps.iter().enumerate().map(|(i, p)| if *p > 200 { size_for(i) } else { *p }).collect();
                    let base = render_csi(inter, fin, &based, size_for, false);
                    let family = format!("csi|{}{}", inter.replace(' ', "SP"), fin as char);
                    Case { family, prefix, emu: 0, large: Bytes(large), base: Bytes(base), ext: String::new(), skip: false }
                })
                .boxed()
        },
        move |c: &Case| if st4(&c.family) { Verdict::discard("steered away: family has a listed open finding") } else { check(c) },
        classify,
    );
    eng.run();
}

/// (family prefix, finding id): families represented by a witness while the finding is open
const KNOWN_FAMILIES: &[(&str, &str)] = &[
    ("csi|b", "C03-rep-unbounded"),
    ("doc|csi|b", "C03-rep-unbounded"),
    ("doc|csi|B", "C03-document-rows-follow-cursor"),
    ("doc|csi|E", "C03-document-rows-follow-cursor"),
    ("doc|csi|H", "C03-document-rows-follow-cursor"),
    ("doc|csi|f", "C03-document-rows-follow-cursor"),
    ("doc|csi|d", "C03-document-rows-follow-cursor"),
    ("doc|csi|e", "C03-document-rows-follow-cursor"),
    ("macro|hex_repeat_count", "C03-macro-hex-repeat-count"),
    ("macro|hex_repeat_of_invocation", "C03-macro-invocation-fanout"),
    ("sixel|repeat", "C03-sixel-repeat-unbounded"),
    ("sixel|raster", "C03-sixel-raster-allocation"),
    ("sixel|colour_register_define", "C03-sixel-colour-register-index"),
    ("file|icy|LAYER_size", "C03-icy-layer-size-allocation"),
    ("file|icy|LAYER_offset", "C03-icy-layer-size-allocation"),
];
