//! C08 — undo restores the document and redo the edit, for every edit history (model-based).
mod check;
mod model;
mod ops;
mod snapshot;

use check::{check, minimize, Case};
use icyv::proptest::prelude::*;
use icyv::serde_json::json;
use icyv::{Engine, PartCfg};
use model::{doc_strategy, fixed_doc, CellM};
use ops::{alphabet, history_strategy, op_strategy, reduced_alphabet, Op};

const CLASSES: &[&str] = &["undo_err", "undo_panic", "undo_mismatch", "redo_err", "redo_panic", "redo_mismatch", "redo_not_cleared", "undo_len"];

fn cases(avoid: Vec<String>, flip_w: u32) -> BoxedStrategy<Case> {
    (doc_strategy(), history_strategy(&avoid, flip_w), prop::collection::vec(any::<u16>(), 0..=4), any::<u16>(), op_strategy(&avoid, 0), prop::bool::weighted(0.3))
        .prop_map(|(doc, ops, walk, k, extra, stepwise)| Case { doc, ops, walk, k, extra, stepwise })
        .boxed()
}

fn enumerated_case(i: u64, r: u64, per_doc: u64, alpha: &[Op]) -> Case {
    let doc = fixed_doc((i / per_doc) as u8);
    let mut j = i % per_doc;
    let mut ops = Vec::new();
    if j < r {
        ops.push(alpha[j as usize].clone());
    } else if j < r + r * r {
        j -= r;
        ops.push(alpha[(j / r) as usize].clone());
        ops.push(alpha[(j % r) as usize].clone());
    } else {
        j -= r + r * r;
        ops.push(alpha[(j / (r * r)) as usize].clone());
        ops.push(alpha[((j / r) % r) as usize].clone());
        ops.push(alpha[(j % r) as usize].clone());
    }
    Case { doc, ops, walk: vec![0x8000], k: 0, extra: Op::SetChar { x: 0, y: 0, c: CellM::plain(b'n', 15, 1) }, stepwise: false }
}

fn bench() {
    use std::time::Instant;
    let d = fixed_doc(1);
    let t = Instant::now();
    for _ in 0..1000 { std::hint::black_box(d.build()); }
    println!("build: {:?}/iter", t.elapsed() / 1000);
    let st = d.build();
    let t = Instant::now();
    for _ in 0..1000 { std::hint::black_box(snapshot::take(icy_engine::editor::EditState::get_buffer(&st))); }
    println!("snapshot: {:?}/iter", t.elapsed() / 1000);
    let t = Instant::now();
    for _ in 0..1000 { std::hint::black_box(icy_engine::Buffer::new((14, 9))); }
    println!("Buffer::new: {:?}/iter", t.elapsed() / 1000);
    let t = Instant::now();
    for _ in 0..1000 { std::hint::black_box(icy_engine::Layer::new("x", (14, 9))); }
    println!("Layer::new: {:?}/iter", t.elapsed() / 1000);
    use icyv::proptest::strategy::ValueTree;
    use icyv::proptest::test_runner::TestRunner;
    let mut runner = TestRunner::deterministic();
    let strat = cases(Vec::new(), 0);
    let cs: Vec<Case> = (0..3000).map(|_| strat.new_tree(&mut runner).unwrap().current()).collect();
    let t = Instant::now();
    for c in &cs { std::hint::black_box(c.doc.build()); }
    println!("random build: {:?}/case", t.elapsed() / 3000);
    let sts: Vec<_> = cs.iter().map(|c| c.doc.build()).collect();
    let t = Instant::now();
    for st in &sts { std::hint::black_box(snapshot::take(st.get_buffer())); }
    println!("random snapshot: {:?}/case", t.elapsed() / 3000);
    let t = Instant::now();
    let mut fails = 0;
    let mut tf = std::time::Duration::ZERO;
    for c in &cs {
        let t1 = Instant::now();
        let v = check(c);
        if matches!(v, icyv::Verdict::Fail { .. }) { fails += 1; tf += t1.elapsed(); }
    }
    println!("random check: {:?}/case, {} fails costing {:?} each", t.elapsed() / 3000, fails, tf / fails.max(1));
    let n: usize = cs.iter().map(|c| c.ops.len()).sum();
    println!("mean len {}", n as f64 / 3000.0);
}

fn main() {
    if std::env::var("C08_BENCH").is_ok() { bench(); return; }
    let mut eng = Engine::new("C08");
    eng.rule(
        "A case = (initial document model, history = Vec<Op>, walk, k, extra, stepwise). Documents: 12x8..30x20, 1..=3 layers (alpha, offset incl. negative, hidden, locked, \
         position/alpha locked, Chars/Attributes mode, paste/image roles, preview offset, trimmed row storage), sparse cells (CP437 blocks/lines, invisible, blink, transparent colour, \
         font pages 0..2), ice/palette/font modes, custom palettes, extra font pages, optional SAUCE, optional selection and selection mask (installed through the API, so the undo stack \
         is not empty at the start), caret, current layer, mirror mode. Op = enum over the public editing entry points of EditState (76 kinds incl. nested atomic groups), layer \
         arguments mapped monotonically onto the layers existing at that moment plus out-of-range boundary values, positions/sizes in range and at the boundary (-1, 0, size, size+1). \
         exhaustive_short: every history of length <= 2 (quick) / <= 3 (thorough) over a reduced alphabet of 94 concrete operations on 2 fixed documents; histories / bulk: random \
         histories of length 1..=40 (mean 7). A history ends before the first operation that returns Err or panics (re-run on a fresh editor without it; counted in the classes \
         ended_err|Kind / ended_panic|Kind). Oracle on the remaining operations: undo exactly undo_stack_len() growth steps -> observational snapshot equals the initial one; redo them \
         -> equals the post-history one; then visit generated operation boundaries by undo/redo steps and compare with the snapshot recorded there (stepwise cases instead run the \
         undo-all/redo-all round after every operation); every undo()/redo() must return Ok without panicking and leave the expected stack length; finally undo k steps, run one more \
         edit: if it registered an undo step, can_redo() must be false. Failure key = <class>|culprit=<kind of the last operation of the shortest failing prefix> (prefixes re-executed). \
         Non-trivial: the history changed the snapshot AND (two operations worked on the same layer index OR a layer add/remove/reorder/merge/paste/crop was followed by a cell edit). \
         Distinct by case hash.",
    );
    eng.assume("the snapshot reads the document only through public accessors (get_char on every cell inside each layer's size incl. font page, sizes, offsets, Properties, role, transparency, default font page, palette RGB, font table, SAUCE fields, buffer size and modes); caret, selection, current layer and dirty flags are not part of the document state named by the statement");
    eng.assume("SAUCE records handed to update_sauce_data carry the current buffer size (Buffer::set_size keeps sauce.buffer_size in step, so a record with a foreign size is outside the editor's own invariant)");
    eng.assume("release profile semantics (overflow-checks off, debug-assertions off); an operation that panics or returns Err ends the history and is not a C08 violation");

    // culprit operations confirmed as open known findings are removed from the alphabet of the bulk part (ids c08.culprit.<Kind>[.<class>])
    let mut avoid: Vec<String> = Vec::new();
    let mut total_w = 0u32;
    let mut avoided_w = 0u32;
    for (w, kind, _) in alphabet(1) {
        total_w += w;
        let hit = eng.finding_open(&format!("c08.culprit.{kind}")) || CLASSES.iter().any(|c| eng.finding_open(&format!("c08.culprit.{kind}.{c}")));
        if hit {
            avoid.push(kind.to_string());
            avoided_w += w;
        }
    }
    eng.extra(
        "steered_away",
        json!({"part": "bulk", "kinds_removed_from_alphabet": avoid, "share_of_generated_operations": avoided_w as f64 / total_w as f64,
               "note": "the parts exhaustive_short and histories keep the full alphabet; failures of known culprits are counted there as excluded_known"}),
    );
    eng.extra("alphabet_kinds", json!(alphabet(1).iter().map(|(_, k, _)| *k).collect::<Vec<_>>()));

    let alpha = reduced_alphabet();
    let r = alpha.len() as u64;
    let per_doc = if eng.is_thorough() { r + r * r + r * r * r } else { r + r * r };
    eng.enumerated(PartCfg::new("exhaustive_short", 0, 0).exhaustive(true), 2 * per_doc, move |i| enumerated_case(i, r, per_doc, &alpha), check);

    eng.generated_min(PartCfg::new("histories", 60_000, 1_000_000).shrink_budget(1200), || cases(Vec::new(), 0), check, |_| "-".to_string(), minimize);
    let av = avoid.clone();
    eng.generated_min(PartCfg::new("bulk", 240_000, 4_000_000).shrink_budget(1200), move || cases(av.clone(), 0), check, |_| "-".to_string(), minimize);
    // flip_x / flip_y rebuild the glyph flip tables of every font on each call (25-90 ms): own, smaller part
    let av = avoid.clone();
    eng.generated_min(PartCfg::new("flip_histories", 1_200, 30_000).shrink_budget(100), move || cases(av.clone(), 25), check, |_| "-".to_string(), minimize);
    eng.run();
}
