//! C08 — undo restores the document and redo the edit, for every edit history (model-based).
//!
//! Replaying a case by hand: `C08_TRACE=1 c08 --replay <file>` prints every layer after each operation and each undo /
//! redo step of one plain round before the verdict.
mod check;
mod model;
mod ops;
mod snapshot;

use check::{check, check_long, minimize, minimize_long, Case, LongCase};
use icyv::proptest::prelude::*;
use icyv::serde_json::json;
use icyv::{Engine, PartCfg};
use model::{doc_strategy, fixed_doc, CellM};
use ops::{alphabet, history_strategy, op_strategy, reduced_alphabet, Op};

const CLASSES: &[&str] = &["undo_err", "undo_panic", "undo_mismatch", "redo_err", "redo_panic", "redo_mismatch", "redo_not_cleared", "undo_len"];

/// Open findings that need a design decision: their precondition is not generated at all (in no part), because the
/// failures they cause show up under the name of whatever innocent operation comes later.
const PRECONDITIONS: &[(&str, &[&str], &str)] = &[
    (
        "C08-stamp-layer-down",
        &[],
        "stamp_layer_down is left out exactly when top and receiving layer have the same size and top.offset + base.offset != (0,0) (ops::stamp_known_class); all other stamps are executed",
    ),
    ("C08-insert-delete-row-column-undo", &["InsertRow", "DeleteRow", "InsertColumn", "DeleteColumn"], "no insert/delete row/column"),
    ("C08-alpha-lock-undo", &[], "no layer with is_alpha_channel_locked (initial documents and update_layer_properties)"),
    ("C08-shrunk-layer-hidden-content", &["SetLayerSize"], "no set_layer_size (the only operation that can leave content beyond a layer's size)"),
    ("C08-change-font-slot", &["ChangeFontSlot"], "no change_font_slot"),
];

#[derive(Clone, Default)]
struct Steer {
    /// kinds removed from every alphabet
    kinds: Vec<String>,
    no_alpha_lock: bool,
    /// StampLayerDown is generated as StampLayerDownSteered
    steer_stamp: bool,
}

fn steer_stamp(op: &mut Op) {
    if matches!(op, Op::StampLayerDown) {
        *op = Op::StampLayerDownSteered;
    }
}

fn clear_alpha_lock(op: &mut Op) {
    if let Op::UpdateLayerProperties { p, .. } = op {
        p.alpha_locked = false;
    }
}

fn cases(avoid: Vec<String>, flip_w: u32, steer: &Steer) -> BoxedStrategy<Case> {
    let no_alpha_lock = steer.no_alpha_lock;
    let stamp = steer.steer_stamp;
    (doc_strategy(), history_strategy(&avoid, flip_w), prop::collection::vec(any::<u16>(), 0..=4), any::<u16>(), op_strategy(&avoid, 0), prop::bool::weighted(0.3))
        .prop_map(move |(mut doc, mut ops, walk, k, mut extra, stepwise)| {
            if stamp {
                ops.iter_mut().for_each(steer_stamp);
                steer_stamp(&mut extra);
            }
            if no_alpha_lock {
                doc.layers.iter_mut().for_each(|l| l.alpha_locked = false);
                ops.iter_mut().for_each(clear_alpha_lock);
                clear_alpha_lock(&mut extra);
            }
            Case { doc, ops, walk, k, extra, stepwise }
        })
        .boxed()
}

/// The table behind the finding C08-stamp-layer-down: top layer offset x receiving layer offset x size relation x position
/// of the stamped character; one stamp_layer_down each (never steered).
const FRAME_OFFSETS: [(i8, i8); 4] = [(0, 0), (1, 0), (0, 1), (2, 1)];
const STAMP_FRAMES: u64 = 4 * 4 * 3 * 3;

fn stamp_frame_case(i: u64) -> Case {
    use model::{DocM, LayerM, PalM};
    let top_off = FRAME_OFFSETS[(i % 4) as usize];
    let base_off = FRAME_OFFSETS[((i / 4) % 4) as usize];
    let (bw, bh) = (6u8, 4u8);
    let (tw, th) = [(4u8, 3u8), (6, 4), (8, 5)][((i / 16) % 3) as usize];
    let content = [(0u8, 0u8), (tw / 2, th / 2), (tw - 1, th - 1)][((i / 48) % 3) as usize];
    let layer = |w: u8, h: u8, off: (i8, i8), alpha: bool, cells: Vec<(u8, u8, CellM)>| LayerM {
        full: false,
        w,
        h,
        ox: off.0,
        oy: off.1,
        alpha,
        visible: true,
        locked: false,
        pos_locked: false,
        alpha_locked: false,
        mode: 0,
        role: 0,
        transparency: 0,
        default_font_page: 0,
        storage: 0,
        cells,
        preview: None,
        stripes: vec![],
    };
    let base = layer(bw, bh, base_off, false, vec![(0, 0, CellM::plain(b'a', 7, 0)), (2, 1, CellM::plain(b'b', 10, 1)), (5, 3, CellM::plain(b'c', 12, 0)), (4, 0, CellM::plain(b'd', 3, 0))]);
    let top = layer(tw, th, top_off, true, vec![(content.0, content.1, CellM::plain(b'T', 15, 4))]);
    let doc = DocM {
        w: 12,
        h: 8,
        layers: vec![base, top],
        ice: 0,
        pal_mode: 1,
        font_mode: 0,
        buffer_type: 0,
        palette: PalM::Dos,
        fonts: vec![],
        sauce: None,
        sel: None,
        mask: vec![],
        caret: (0, 0),
        caret_font: 0,
        cur: 1,
        mirror: false,
        transient: Default::default(),
    };
    Case { doc, ops: vec![Op::StampLayerDown], walk: vec![0x8000], k: 0, extra: Op::SetChar { x: 0, y: 0, c: CellM::plain(b'n', 15, 1) }, stepwise: false }
}

/// Entries inside the known failing class must fail with the finding's key (or pass once it is fixed); all others are asserted
/// to pass (a failure there carries the tag `outside_known_stamp_class` and matches no known key).
fn check_stamp_frame(c: &Case) -> icyv::Verdict {
    use icy_engine::TextPane;
    let st = c.doc.build();
    let in_class = ops::stamp_known_class(&st) == Some(true);
    let sizes = {
        let l = &st.get_buffer().layers;
        if l[1].get_width() < l[0].get_width() {
            "top_smaller"
        } else if l[1].get_size() == l[0].get_size() {
            "top_equal"
        } else {
            "top_larger"
        }
    };
    drop(st);
    match check(c) {
        icyv::Verdict::Pass { .. } => icyv::Verdict::pass(true, format!("{}|{sizes}", if in_class { "known_class_but_passes" } else { "passes" })),
        icyv::Verdict::Fail { key, msg } if in_class && (key == "undo_mismatch.layer_cells|culprit=StampLayerDown" || key == "redo_mismatch.layer_cells|culprit=StampLayerDown") => {
            // one defect: where undo happens to restore the receiving layer, redo shows it; reported under the finding's key
            icyv::Verdict::fail("undo_mismatch.layer_cells|culprit=StampLayerDown", format!("[{key}] {msg}"))
        }
        v => v,
    }
}

/// Long histories: the number of items sits around the caps a maintainer would pick for a history limit.
fn long_cases(thorough: bool) -> BoxedStrategy<LongCase> {
    let mut bands: Vec<BoxedStrategy<u32>> = vec![(60u32..=70).boxed(), (120u32..=130).boxed(), (250u32..=260).boxed(), (505u32..=520).boxed(), (1000u32..=1030).boxed(), (2040u32..=2060).boxed(), (4090u32..=4100).boxed()];
    if thorough {
        bands.push((9990u32..=10010).boxed());
    }
    let n = proptest::strategy::Union::new(bands);
    (12u8..=16, 8u8..=10, any::<bool>(), any::<u64>(), n, prop::bool::weighted(0.8), prop::bool::weighted(0.7), prop::bool::weighted(0.5))
        .prop_map(|(w, h, two_layers, seed, n, groups, whole, flips)| LongCase { w, h, two_layers, seed, n, groups, whole, flips })
        .boxed()
}

/// Histories over the reduced alphabet `alpha` (r operations): all of length 1 and 2, and (thorough) all of length 3 over
/// `alpha3` (the same alphabet without flip_x / flip_y, which cost 25-90 ms per call).
fn enumerated_case(i: u64, per_doc: u64, alpha: &[Op], alpha3: &[Op]) -> Case {
    let r = alpha.len() as u64;
    let r3 = alpha3.len() as u64;
    let doc = fixed_doc((i / per_doc) as u8);
    let mut j = i % per_doc;
    let mut ops = Vec::new();
    if j < r {
        ops.push(alpha[j as usize].clone());
    } else if j < r + r * r {
        j -= r;
        ops.push(alpha[(j / r) as usize].clone());
        ops.push(alpha[(j % r) as usize].clone());
    } else {
        j -= r + r * r;
        ops.push(alpha3[(j / (r3 * r3)) as usize].clone());
        ops.push(alpha3[((j / r3) % r3) as usize].clone());
        ops.push(alpha3[(j % r3) as usize].clone());
    }
    Case { doc, ops, walk: vec![0x8000], k: 0, extra: Op::SetChar { x: 0, y: 0, c: CellM::plain(b'n', 15, 1) }, stepwise: false }
}

/// `C08_STAMP_TABLE=1 c08 quick` prints the verdict of every stamp_frames entry and exits (how the failing class of the
/// finding C08-stamp-layer-down was determined).
fn print_stamp_table() {
    for i in 0..STAMP_FRAMES {
        let c = stamp_frame_case(i);
        let (b, t) = (&c.doc.layers[0], &c.doc.layers[1]);
        let v = match check_stamp_frame(&c) {
            icyv::Verdict::Pass { class, .. } => format!("pass  {class}"),
            icyv::Verdict::Fail { key, msg } => format!("FAIL  {key}  {}", msg.chars().take(40).collect::<String>()),
            icyv::Verdict::Discard { why } => format!("discard {why}"),
        };
        println!("top@({},{}) {}x{} T at {:?} | base@({},{}) {}x{} | {v}", t.ox, t.oy, t.w, t.h, (t.cells[0].0, t.cells[0].1), b.ox, b.oy, b.w, b.h);
    }
}

fn main() {
    if std::env::var_os("C08_STAMP_TABLE").is_some() {
        print_stamp_table();
        return;
    }
    let mut eng = Engine::new("C08");
    eng.rule(
        "A case = (initial document model, history = Vec<Op>, walk, k, extra, stepwise). Documents: 12x8..30x20, 1..=3 layers (alpha, offset incl. negative, hidden, locked, \
         position/alpha locked, Chars/Attributes mode, paste/image roles, rows allocated fully or only as far as content reaches), sparse cells (CP437 blocks/lines, invisible, blink, \
         transparent colour, colours beyond the palette, font pages 0..2), ice/palette/font modes, custom palettes, extra font pages, optional SAUCE, optional selection and selection \
         mask (installed through the API, so the undo stack is not empty at the start), caret, current layer, mirror mode, and the transient state a front end leaves between \
         operations: a pending preview offset on a layer (drag in progress), an overlay layer with a tool preview, a selection in progress or locked, caret colours / insert mode. Op = enum over the public editing entry points of EditState \
         (73 kinds incl. nested atomic groups opened/closed by BeginAtomic/EndAtomic markers) plus 4 front-end actions that register no undo step (Drag = set_preview_offset on the \
         current layer, DragCancel, Hover = draw into / remove the overlay layer, SetCaretState); layer arguments are mapped monotonically onto the layers existing at that moment (raise: \
         all but the top one, lower / merge down: all but the bottom one) plus out-of-range boundary values; positions and sizes in range and at the boundary (-1, 0, size, size+1). \
         exhaustive_short: every history of length <= 2 (quick) over a reduced alphabet of 96 concrete operations on 2 fixed documents, thorough adds every history of length 3 over \
         the same alphabet without the two flips (94 operations); histories / bulk / flip_histories: random histories of length 1..=40 (mean 7; flip_histories 1..=6 with flip_x/flip_y, \
         which are excluded elsewhere because each call costs 25-90 ms). A history ends before the first operation that returns Err or panics (it is re-run on a fresh editor without \
         that operation; counted in the classes ended_err|Kind / ended_panic|Kind). Oracle on the remaining operations: undo exactly undo_stack_len() growth steps -> observational \
         snapshot equals the initial one; redo them -> equals the post-history one; then visit generated operation boundaries by undo/redo steps and compare with the snapshot recorded \
         there during execution (stepwise cases instead run the undo-all/redo-all round after every operation and twice at the end); every undo()/redo() must return Ok without \
         panicking and leave the expected stack length; finally undo k steps and run one more edit: if it registered an undo step, can_redo() must be false. Failure key = \
         <class>|culprit=<OpKind>: prefixes of the history are re-executed on fresh editors (down and up all operation boundaries, twice); the shortest failing prefix gives the class; \
         culprit = its last operation for *_mismatch classes, the operation that pushed the failing step for *_err / *_panic; for redo_not_cleared the culprit is the new edit. \
         Non-trivial: the history changed the snapshot AND (two operations worked on the same layer index OR a layer add/remove/reorder/merge/paste/crop was followed by a cell edit). \
         long_histories: a case = (small document 12x8..16x10 with 1 or 2 layers, seed, n, flags); item i of the history is a pure function of (seed, i) drawn from cheap, always \
         successful operations (set_char 70%, atomic groups of 2..=5 set_char, move_layer, swap_char, caret / current-layer moves, set_ice_mode, set_palette_mode, resize_buffer with and \
         without layers, flip_x/flip_y about 1 in 400); n from {60..70, 120..130, 250..260, 505..520, 1000..1030, 2040..2060, 4090..4100} (thorough: plus 9990..10010); oracle: the \
         plain round, the number of registered undo steps against the model (one per step item, one per atomic group), can_redo() false after redoing everything, and a walk to the \
         boundaries before the last item, in the middle and after the first item; key <class>|long_history; non-trivial: the document changed and >= 50 steps. \
         Distinct by case hash. While one of the findings C08-stamp-layer-down, C08-insert-delete-row-column-undo, C08-alpha-lock-undo, C08-shrunk-layer-hidden-content, \
         C08-change-font-slot is open, its precondition (insert/delete row/column; alpha-locked layers; set_layer_size; change_font_slot) is generated in no part; for \
         C08-stamp-layer-down only the failing class itself is avoided: the generators emit StampLayerDownSteered, which leaves the stamp out exactly when top and receiving layer have the \
         same size and top.offset + base.offset != (0,0) and executes every other stamp (coverage.steered_away lists what was removed; cases with a left-out stamp carry the class suffix \
         stamp_in_known_class_left_out); a failing stamp outside that class gets the key tag |outside_known_stamp_class. stamp_frames: exhaustive table of one stamp_layer_down (never \
         steered) over top offset x receiving-layer offset in {(0,0),(1,0),(0,1),(2,1)} x top size {4x3, 6x4, 8x5} against a 6x4 receiving layer x position of the stamped character \
         (first, middle, last cell): entries inside the class must fail with the finding's key (or pass once fixed), all others must pass. Witness files are never steered.",
    );
    eng.assume("the snapshot reads the document only through public accessors (get_char on every cell inside each layer's size, sizes, offsets, Properties, role, transparency, default font page, palette RGB, font table, SAUCE fields, buffer size and modes); caret, selection, current layer, overlay layer, a pending preview offset and dirty flags are not part of the document state named by the statement (undo may clear a preview offset; the layer offset that is compared is the stored one, Layer::get_base_offset); the font page of an invisible cell is not compared (the engine pads rows with font-page-0 invisibles whatever the layer's default page is)");
    eng.assume("SAUCE records handed to update_sauce_data carry the current buffer size (Buffer::set_size keeps sauce.buffer_size in step, so a record with a foreign size is outside the editor's own invariant)");
    eng.assume("release profile semantics (overflow-checks off, debug-assertions off); an operation that panics or returns Err ends the history and is not a C08 violation");

    // (1) preconditions of open design-decision findings: generated in no part
    let mut steer = Steer::default();
    let mut steered = Vec::new();
    for (id, kinds, what) in PRECONDITIONS {
        if eng.finding_open(id) {
            steer.kinds.extend(kinds.iter().map(|k| k.to_string()));
            if *id == "C08-alpha-lock-undo" {
                steer.no_alpha_lock = true;
            }
            if *id == "C08-stamp-layer-down" {
                steer.steer_stamp = true;
            }
            steered.push(json!({"finding": id, "not_generated": what, "kinds": kinds}));
        }
    }
    // (2) culprit operations of other open findings (ids c08.culprit.<Kind> or c08.culprit.<Kind>.<class>) are removed
    // from the alphabet of the bulk and flip_histories parts only; exhaustive_short and histories keep exercising them
    let mut avoid_bulk: Vec<String> = steer.kinds.clone();
    let mut culprits: Vec<String> = Vec::new();
    let (mut total_w, mut steered_w, mut bulk_w) = (0u32, 0u32, 0u32);
    for (w, kind, _) in alphabet(0) {
        total_w += w;
        if steer.kinds.iter().any(|k| k == kind) {
            steered_w += w;
            bulk_w += w;
            continue;
        }
        let hit = eng.finding_open(&format!("c08.culprit.{kind}")) || CLASSES.iter().any(|c| eng.finding_open(&format!("c08.culprit.{kind}.{c}")));
        if hit {
            avoid_bulk.push(kind.to_string());
            culprits.push(kind.to_string());
            bulk_w += w;
        }
    }
    let mut alpha = reduced_alphabet();
    let r_full = alpha.len();
    alpha.retain(|o| !steer.kinds.iter().any(|k| *k == o.kind()));
    if steer.steer_stamp {
        alpha.iter_mut().for_each(steer_stamp);
    }
    eng.extra(
        "steered_away",
        json!({
            "open_design_decision_findings": steered,
            "all_parts": {
                "kinds_removed_from_every_alphabet": steer.kinds,
                "share_of_generated_operations_removed": steered_w as f64 / total_w as f64,
                "reduced_alphabet_operations_removed": r_full - alpha.len(),
                "reduced_alphabet_operations_left": alpha.len(),
                "alpha_locked_layers_removed": steer.no_alpha_lock,
                "expected_share_of_documents_changed_by_that": if steer.no_alpha_lock { 0.19 } else { 0.0 },
                "expected_share_of_update_layer_properties_changed_by_that": if steer.no_alpha_lock { 0.2 } else { 0.0 },
            },
            "bulk_and_flip_histories_only": {"culprit_kinds_removed": culprits, "share_of_generated_operations_removed_in_total": bulk_w as f64 / total_w as f64},
            "note": "shares are weights of the generator's alphabet (static); replay and witness files are never steered",
        }),
    );
    eng.extra("alphabet_kinds", json!(alphabet(1).iter().map(|(_, k, _)| *k).collect::<Vec<_>>()));

    let alpha3: Vec<Op> = alpha.iter().filter(|o| !matches!(o, Op::FlipX | Op::FlipY)).cloned().collect();
    let (r, r3) = (alpha.len() as u64, alpha3.len() as u64);
    let per_doc = if eng.is_thorough() { r + r * r + r3 * r3 * r3 } else { r + r * r };
    eng.extra("reduced_alphabet", json!({"operations": r, "operations_in_length_3_histories": r3, "documents": 2, "max_length": if eng.is_thorough() { 3 } else { 2 }}));
    eng.enumerated(PartCfg::new("exhaustive_short", 0, 0).exhaustive(true), 2 * per_doc, move |i| enumerated_case(i, per_doc, &alpha, &alpha3), check);

    let (st, av) = (steer.clone(), steer.kinds.clone());
    eng.generated_min(PartCfg::new("histories", 60_000, 600_000).shrink_budget(1200), move || cases(av.clone(), 0, &st), check, |_| "-".to_string(), minimize);
    let (st, av) = (steer.clone(), avoid_bulk.clone());
    eng.generated_min(PartCfg::new("bulk", 240_000, 3_000_000).shrink_budget(1200), move || cases(av.clone(), 0, &st), check, |_| "-".to_string(), minimize);
    // flip_x / flip_y rebuild the glyph flip tables of every font on each call (25-90 ms): own, smaller part
    let (st, av) = (steer.clone(), avoid_bulk.clone());
    eng.generated_min(PartCfg::new("flip_histories", 1_200, 20_000).shrink_budget(100), move || cases(av.clone(), 25, &st), check, |_| "-".to_string(), minimize);
    eng.enumerated(PartCfg::new("stamp_frames", 0, 0).exhaustive(true), STAMP_FRAMES, stamp_frame_case, check_stamp_frame);
    // history length as its own dimension: few cases, 60..4100 (thorough: ..10000) cheap operations each
    let thorough = eng.is_thorough();
    eng.generated_min(PartCfg::new("long_histories", 300, 5_000).shrink_budget(40), move || long_cases(thorough), check_long, |_| "-".to_string(), minimize_long);
    eng.run();
}
