//! Plain serialisable models of the initial document and helpers to build engine objects from them.
use icy_engine::editor::EditState;
use icy_engine::{
    AddType, AttributedChar, BitFont, Buffer, BufferType, Color, FontMode, IceMode, Layer, Line, Mode, Palette, PaletteMode, Position, Role, SauceData,
    SauceString, Selection, Shape, Size, TextAttribute, SAUCE_FONT_NAMES,
};
use icyv::proptest::prelude::*;
use serde::{Deserialize, Serialize};

/// one character cell: code point, attribute flags, colours (bit 31 = "transparent"/direct RGB), font page
#[derive(Clone, Debug, Hash, PartialEq, Eq, Serialize, Deserialize)]
pub struct CellM {
    pub ch: u16,
    pub attr: u16,
    pub fg: u32,
    pub bg: u32,
    pub font: u8,
}

impl CellM {
    pub fn to_char(&self) -> AttributedChar {
        // never a surrogate: the generator only emits code points from CHARS
        let ch = char::from_u32(self.ch as u32).unwrap_or('?');
        let mut attr = TextAttribute::new(self.fg, self.bg);
        attr.attr = self.attr;
        attr.set_font_page(self.font as usize);
        AttributedChar::new(ch, attr)
    }
    pub fn plain(ch: u8, fg: u32, bg: u32) -> CellM {
        CellM { ch: ch as u16, attr: 0, fg, bg, font: 0 }
    }
}

pub const CHARS: &[u16] = &[
    b'A' as u16, b'b' as u16, b' ' as u16, 0, b'/' as u16, b'\\' as u16, 176, 177, 178, 219, 220, 221, 222, 223, 179, 196, 191, 218, 186, 205, 255, b'(' as u16,
    b'<' as u16, 0x2588,
];
pub const ATTRS: &[u16] = &[0, 0, 0, 1, 8, 0x10, 0x8000, 0x8001, 0x0208];

pub fn cell_strategy() -> BoxedStrategy<CellM> {
    // colours beyond the palette and the transparent flag are boundary values: set_palette_mode indexes its tables with them
    let colour = prop_oneof![40 => 0u32..16, 1 => 16u32..20, 1 => Just(TextAttribute::TRANSPARENT_COLOR)];
    let colour2 = prop_oneof![40 => 0u32..16, 1 => 16u32..20, 1 => Just(TextAttribute::TRANSPARENT_COLOR)];
    (0usize..CHARS.len(), 0usize..ATTRS.len(), colour, colour2, prop_oneof![8 => Just(0u8), 2 => Just(1u8), 1 => Just(2u8)])
        .prop_map(|(c, a, fg, bg, font)| CellM { ch: CHARS[c], attr: ATTRS[a], fg, bg, font })
        .boxed()
}

/// a whole row or column of the layer filled with one glyph whose font page alternates 0/1 from cell to cell: operations
/// that only permute cells (flip, scroll) then change nothing but font pages, which the crate's own == does not see
#[derive(Clone, Debug, Hash, PartialEq, Eq, Serialize, Deserialize)]
pub struct StripeM {
    pub row: bool,
    pub at: u8,
    pub c: CellM,
}

#[derive(Clone, Debug, Hash, PartialEq, Eq, Serialize, Deserialize)]
pub struct LayerM {
    /// size = buffer size (the usual case) instead of (w,h)
    pub full: bool,
    pub w: u8,
    pub h: u8,
    pub ox: i8,
    pub oy: i8,
    pub alpha: bool,
    pub visible: bool,
    pub locked: bool,
    pub pos_locked: bool,
    pub alpha_locked: bool,
    /// 0 Normal, 1 Chars, 2 Attributes
    pub mode: u8,
    /// 0 Normal, 1 PastePreview, 2 PasteImage, 3 Image
    pub role: u8,
    pub transparency: u8,
    pub default_font_page: u8,
    /// 0 = every row allocated to full width (Layer::new), 1 = rows/columns only as far as content reaches (as loaders leave them)
    pub storage: u8,
    pub cells: Vec<(u8, u8, CellM)>,
    /// transient state of a front end: the layer is being dragged and shown at this offset (Layer::set_preview_offset)
    #[serde(default)]
    pub preview: Option<(i8, i8)>,
    #[serde(default)]
    pub stripes: Vec<StripeM>,
}

pub fn mode_of(m: u8) -> Mode {
    match m {
        1 => Mode::Chars,
        2 => Mode::Attributes,
        _ => Mode::Normal,
    }
}
pub fn role_of(r: u8) -> Role {
    match r {
        1 => Role::PastePreview,
        2 => Role::PasteImage,
        3 => Role::Image,
        _ => Role::Normal,
    }
}

impl LayerM {
    pub fn size(&self, doc_w: u8, doc_h: u8) -> (i32, i32) {
        if self.full {
            (doc_w as i32, doc_h as i32)
        } else {
            (self.w as i32, self.h as i32)
        }
    }

    pub fn build(&self, idx: usize, doc_w: u8, doc_h: u8) -> Layer {
        let (w, h) = self.size(doc_w, doc_h);
        let mut l = Layer::new(format!("L{idx}"), (w, h));
        l.properties.has_alpha_channel = self.alpha;
        l.default_font_page = self.default_font_page as usize;
        // content first (set_char refuses on locked / hidden layers), flags afterwards
        for (x, y, c) in &self.cells {
            let (x, y) = (*x as i32 % w.max(1), *y as i32 % h.max(1));
            l.set_char((x, y), c.to_char());
        }
        for st in &self.stripes {
            let (n, at) = if st.row { (w, st.at as i32 % h.max(1)) } else { (h, st.at as i32 % w.max(1)) };
            for k in 0..n {
                let mut c = st.c.clone();
                c.font = (k % 2) as u8;
                c.attr &= 0x7fff; // visible
                l.set_char(if st.row { (k, at) } else { (at, k) }, c.to_char());
            }
        }
        if self.storage == 1 {
            // trim storage to the content, like a loader that only allocates what it read
            for line in &mut l.lines {
                while line.chars.last().map(|c| !c.is_visible()).unwrap_or(false) {
                    line.chars.pop();
                }
            }
            while l.lines.last().map(|ln: &Line| ln.chars.is_empty()).unwrap_or(false) {
                l.lines.pop();
            }
        }
        l.set_offset((self.ox as i32, self.oy as i32));
        if let Some((px, py)) = self.preview {
            l.set_preview_offset(Some(Position::new(px as i32, py as i32)));
        }
        l.role = role_of(self.role);
        l.transparency = self.transparency;
        l.properties.mode = mode_of(self.mode);
        l.properties.is_visible = self.visible;
        l.properties.is_locked = self.locked;
        l.properties.is_position_locked = self.pos_locked;
        l.properties.is_alpha_channel_locked = self.alpha_locked;
        l
    }
}

pub fn layer_strategy() -> BoxedStrategy<LayerM> {
    let geom = (prop::bool::weighted(0.55), 1u8..=22, 1u8..=14, prop_oneof![3 => Just(0i8), 3 => -4i8..=8], prop_oneof![3 => Just(0i8), 3 => -3i8..=6]);
    let flags = (
        prop::bool::weighted(0.6),
        prop::bool::weighted(0.85),
        prop::bool::weighted(0.12),
        prop::bool::weighted(0.1),
        prop::bool::weighted(0.1),
        prop_oneof![8 => Just(0u8), 1 => Just(1u8), 1 => Just(2u8)],
        prop_oneof![12 => Just(0u8), 2 => Just(1u8), 1 => Just(2u8), 1 => Just(3u8)],
    );
    let misc = (
        prop_oneof![4 => Just(0u8), 1 => any::<u8>()],
        prop_oneof![6 => Just(0u8), 1 => Just(1u8)],
        prop_oneof![3 => Just(0u8), 1 => Just(1u8)],
        prop_oneof![7 => Just(None), 1 => (-3i8..=8, -2i8..=6).prop_map(Some)],
    );
    let stripe = (prop::bool::weighted(0.7), 0u8..20, cell_strategy()).prop_map(|(row, at, c)| StripeM { row, at, c });
    // a striped layer is otherwise empty half of the time, so that whole-layer operations permute nothing but the stripe
    let cells = prop_oneof![
        17 => (prop::collection::vec((0u8..30, 0u8..20, cell_strategy()), 0..=14), Just(Vec::new())),
        2 => (prop::collection::vec((0u8..30, 0u8..20, cell_strategy()), 0..=6), prop::collection::vec(stripe.clone(), 1..=1)),
        2 => (Just(Vec::new()), prop::collection::vec(stripe, 1..=2)),
    ];
    (geom, flags, misc, cells)
        .prop_map(|((full, w, h, ox, oy), (alpha, visible, locked, pos_locked, alpha_locked, mode, role), (transparency, default_font_page, storage, preview), (cells, stripes))| LayerM {
            full,
            w,
            h,
            ox,
            oy,
            alpha,
            visible,
            locked,
            pos_locked,
            alpha_locked,
            mode,
            role,
            transparency,
            default_font_page,
            storage,
            cells,
            preview,
            stripes,
        })
        .boxed()
}

#[derive(Clone, Debug, Hash, PartialEq, Eq, Serialize, Deserialize)]
pub struct SelM {
    pub ax: i8,
    pub ay: i8,
    pub lx: i8,
    pub ly: i8,
    /// false = Lines
    pub rect: bool,
    /// 0 Default, 1 Add, 2 Subtract
    pub add: u8,
    #[serde(default)]
    pub locked: bool,
}

impl SelM {
    pub fn build(&self) -> Selection {
        Selection {
            anchor: Position::new(self.ax as i32, self.ay as i32),
            lead: Position::new(self.lx as i32, self.ly as i32),
            locked: self.locked,
            shape: if self.rect { Shape::Rectangle } else { Shape::Lines },
            add_type: match self.add {
                1 => AddType::Add,
                2 => AddType::Subtract,
                _ => AddType::Default,
            },
        }
    }
}

pub fn sel_strategy() -> BoxedStrategy<SelM> {
    let c = || prop_oneof![6 => 0i8..=12, 2 => -3i8..=34];
    let r = || prop_oneof![6 => 0i8..=8, 2 => -3i8..=24];
    let finished = (c(), r(), c(), r(), prop::bool::weighted(0.8), prop_oneof![6 => Just(0u8), 1 => Just(1u8), 1 => Just(2u8)])
        .prop_map(|(ax, ay, lx, ly, rect, add)| SelM { ax, ay, lx, ly, rect, add, locked: false })
        .boxed();
    // a selection in progress (anchor set, nothing spanned yet) and a locked one are states a front end leaves behind too
    prop_oneof![
        8 => finished,
        1 => (c(), r()).prop_map(|(ax, ay)| SelM { ax, ay, lx: ax, ly: ay, rect: false, add: 0, locked: false }),
        1 => (c(), r(), c(), r()).prop_map(|(ax, ay, lx, ly)| SelM { ax, ay, lx, ly, rect: true, add: 0, locked: true }),
    ]
    .boxed()
}

#[derive(Clone, Debug, Hash, PartialEq, Eq, Serialize, Deserialize)]
pub enum PalM {
    Dos,
    Custom(Vec<(u8, u8, u8)>),
}

impl PalM {
    pub fn build(&self) -> Palette {
        match self {
            PalM::Dos => Palette::dos_default(),
            PalM::Custom(c) => {
                let cols: Vec<Color> = c.iter().map(|(r, g, b)| Color::new(*r, *g, *b)).collect();
                Palette::from_slice(&cols)
            }
        }
    }
}

pub fn pal_strategy() -> BoxedStrategy<PalM> {
    prop_oneof![
        12 => Just(PalM::Dos),
        1 => prop::collection::vec((any::<u8>(), any::<u8>(), any::<u8>()), 1..=15).prop_map(PalM::Custom),
        7 => prop::collection::vec((any::<u8>(), any::<u8>(), any::<u8>()), 16..=20).prop_map(PalM::Custom),
    ]
    .boxed()
}

#[derive(Clone, Debug, Hash, PartialEq, Eq, Serialize, Deserialize)]
pub struct SauceM {
    pub title: String,
    pub author: String,
    pub group: String,
    pub comments: Vec<String>,
    pub use_ice: bool,
    pub letter_spacing: bool,
    pub aspect_ratio: bool,
    pub font: Option<u8>,
}

impl SauceM {
    /// `size`: SAUCE mirrors the buffer size (Buffer::set_size keeps it in step), so the model takes it from the document
    pub fn build(&self, size: Size) -> SauceData {
        let mut s = SauceData::default();
        s.title = SauceString::from(self.title.as_str());
        s.author = SauceString::from(self.author.as_str());
        s.group = SauceString::from(self.group.as_str());
        s.comments = self.comments.iter().map(|c| SauceString::from(c.as_str())).collect();
        s.use_ice = self.use_ice;
        s.use_letter_spacing = self.letter_spacing;
        s.use_aspect_ratio = self.aspect_ratio;
        s.font_opt = self.font.map(|i| SAUCE_FONT_NAMES[i as usize % SAUCE_FONT_NAMES.len()].to_string());
        s.buffer_size = size;
        s
    }
}

pub fn sauce_strategy() -> BoxedStrategy<SauceM> {
    ("[A-Za-z ]{0,8}", "[a-z]{0,6}", "[A-Z]{0,4}", prop::collection::vec("[a-z ]{0,10}", 0..=2), any::<bool>(), any::<bool>(), any::<bool>(), prop::option::of(0u8..8))
        .prop_map(|(title, author, group, comments, use_ice, letter_spacing, aspect_ratio, font)| SauceM { title, author, group, comments, use_ice, letter_spacing, aspect_ratio, font })
        .boxed()
}

/// state a front end sets between operations and that no undo step covers
#[derive(Clone, Debug, Default, Hash, PartialEq, Eq, Serialize, Deserialize)]
pub struct TransientM {
    /// overlay layer (tool preview) on the current layer with one character at (x, y)
    pub overlay: Option<(u8, u8, CellM)>,
    /// caret colours (fg, bg)
    pub caret_attr: Option<(u8, u8)>,
    pub insert_mode: bool,
}

#[derive(Clone, Debug, Hash, PartialEq, Eq, Serialize, Deserialize)]
pub struct DocM {
    pub w: u8,
    pub h: u8,
    pub layers: Vec<LayerM>,
    /// 0 Unlimited, 1 Blink, 2 Ice
    pub ice: u8,
    /// 0 RGB, 1 Fixed16, 2 Free8, 3 Free16
    pub pal_mode: u8,
    /// 0 Unlimited, 1 Sauce, 2 Single, 3 FixedSize
    pub font_mode: u8,
    /// 0 CP437, 1 Unicode
    pub buffer_type: u8,
    pub palette: PalM,
    /// extra font pages: (page, ansi font slot)
    pub fonts: Vec<(u8, u8)>,
    pub sauce: Option<SauceM>,
    pub sel: Option<SelM>,
    /// rectangles already in the selection mask (x, y, w, h)
    pub mask: Vec<(i8, i8, u8, u8)>,
    pub caret: (i8, i8),
    pub caret_font: u8,
    pub cur: u8,
    pub mirror: bool,
    #[serde(default)]
    pub transient: TransientM,
}

pub fn ice_of(m: u8) -> IceMode {
    match m {
        1 => IceMode::Blink,
        2 => IceMode::Ice,
        _ => IceMode::Unlimited,
    }
}
pub fn palmode_of(m: u8) -> PaletteMode {
    match m {
        0 => PaletteMode::RGB,
        2 => PaletteMode::Free8,
        3 => PaletteMode::Free16,
        _ => PaletteMode::Fixed16,
    }
}
pub fn fontmode_of(m: u8) -> FontMode {
    match m {
        1 => FontMode::Sauce,
        2 => FontMode::Single,
        3 => FontMode::FixedSize,
        _ => FontMode::Unlimited,
    }
}

impl DocM {
    /// Build a fresh editor on this document. Selection and mask are installed through the public API, so the undo stack is
    /// not empty when the history starts (the history's steps are counted from there).
    pub fn build(&self) -> EditState {
        let mut buf = Buffer::new((self.w as i32, self.h as i32));
        buf.layers.clear();
        for (i, l) in self.layers.iter().enumerate() {
            buf.layers.push(l.build(i, self.w, self.h));
        }
        buf.ice_mode = ice_of(self.ice);
        buf.palette_mode = palmode_of(self.pal_mode);
        buf.font_mode = fontmode_of(self.font_mode);
        buf.buffer_type = if self.buffer_type == 1 { BufferType::Unicode } else { BufferType::CP437 };
        buf.palette = self.palette.build();
        for (page, slot) in &self.fonts {
            if *page != 0 {
                if let Ok(f) = BitFont::from_ansi_font_page(*slot as usize) {
                    buf.set_font(*page as usize, f);
                }
            }
        }
        if let Some(s) = &self.sauce {
            let size = buf.get_size_pub();
            buf.set_sauce(Some(s.build(size)), false);
        }
        let mut st = EditState::from_buffer(buf);
        for (x, y, w, h) in &self.mask {
            let r = icy_engine::Rectangle::from(*x as i32, *y as i32, *w as i32, *h as i32);
            let _ = st.set_selection(r);
            let _ = st.add_selection_to_mask();
            let _ = st.deselect();
        }
        if let Some(s) = &self.sel {
            let _ = st.set_selection(s.build());
        }
        st.get_caret_mut().set_position(Position::new(self.caret.0 as i32, self.caret.1 as i32));
        st.get_caret_mut().set_font_page(self.caret_font as usize);
        st.set_current_layer(self.cur as usize);
        st.set_mirror_mode(self.mirror);
        if let Some((fg, bg)) = self.transient.caret_attr {
            st.get_caret_mut().set_attr(TextAttribute::new(fg as u32, bg as u32));
        }
        st.get_caret_mut().insert_mode = self.transient.insert_mode;
        if let Some((x, y, c)) = &self.transient.overlay {
            if let Some(o) = st.get_overlay_layer() {
                o.set_char((*x as i32, *y as i32), c.to_char());
            }
        }
        st
    }
}

/// `Buffer::get_size` comes from the TextPane trait; small helper so callers need no trait import
pub trait BufSize {
    fn get_size_pub(&self) -> Size;
}
impl BufSize for Buffer {
    fn get_size_pub(&self) -> Size {
        use icy_engine::TextPane;
        self.get_size()
    }
}

pub fn doc_strategy() -> BoxedStrategy<DocM> {
    let size = (12u8..=30, 8u8..=20);
    let layers = prop_oneof![2 => prop::collection::vec(layer_strategy(), 1..=1), 4 => prop::collection::vec(layer_strategy(), 2..=2), 3 => prop::collection::vec(layer_strategy(), 3..=3)];
    let modes = (
        prop_oneof![3 => Just(0u8), 1 => Just(1u8), 1 => Just(2u8)],
        prop_oneof![1 => Just(0u8), 4 => Just(1u8), 1 => Just(2u8), 1 => Just(3u8)],
        prop_oneof![10 => Just(0u8), 2 => Just(1u8), 1 => Just(2u8), 1 => Just(3u8)],
        prop_oneof![5 => Just(0u8), 1 => Just(1u8)],
    );
    let fonts = prop_oneof![1 => Just(vec![]), 2 => (0u8..42).prop_map(|s| vec![(1u8, s)]), 1 => (0u8..42, 0u8..42).prop_map(|(a, b)| vec![(1u8, a), (2u8, b)])];
    let sel = (prop::option::weighted(0.5, sel_strategy()), prop::collection::vec((0i8..20, 0i8..12, 1u8..6, 1u8..5), 0..=2));
    let caret = ((prop_oneof![6 => 0i8..=11, 1 => -2i8..=31], prop_oneof![6 => 0i8..=7, 1 => -2i8..=21]), prop_oneof![5 => Just(0u8), 1 => Just(1u8)], 0u8..=3, prop::bool::weighted(0.1));
    let transient = (prop::option::weighted(0.15, (0u8..12, 0u8..8, cell_strategy())), prop::option::weighted(0.3, (0u8..16, 0u8..16)), prop::bool::weighted(0.2))
        .prop_map(|(overlay, caret_attr, insert_mode)| TransientM { overlay, caret_attr, insert_mode });
    (size, layers, modes, pal_strategy(), fonts, prop::option::weighted(0.3, sauce_strategy()), sel, caret, transient)
        .prop_map(|((w, h), layers, (ice, pal_mode, font_mode, buffer_type), palette, fonts, sauce, (sel, mask), (caret, caret_font, cur, mirror), transient)| DocM {
            w,
            h,
            layers,
            ice,
            pal_mode,
            font_mode,
            buffer_type,
            palette,
            fonts,
            sauce,
            sel,
            mask,
            caret,
            caret_font,
            cur,
            mirror,
            transient,
        })
        .boxed()
}

/// two fixed documents for the exhaustive part
pub fn fixed_doc(i: u8) -> DocM {
    let base = LayerM {
        full: true,
        w: 12,
        h: 8,
        ox: 0,
        oy: 0,
        alpha: false,
        visible: true,
        locked: false,
        pos_locked: false,
        alpha_locked: false,
        mode: 0,
        role: 0,
        transparency: 0,
        default_font_page: 0,
        storage: 0,
        cells: vec![
            (0, 0, CellM::plain(b'A', 7, 0)),
            (1, 0, CellM::plain(b'/', 14, 1)),
            (3, 1, CellM::plain(220, 4, 9)),
            (11, 7, CellM::plain(b'Z', 15, 0)),
            (2, 2, CellM::plain(b' ', 7, 0)),
            (5, 3, CellM::plain(179, 2, 0)),
        ],
        preview: None,
        stripes: vec![],
    };
    let top = LayerM {
        full: false,
        w: 6,
        h: 4,
        ox: 2,
        oy: 1,
        alpha: true,
        cells: vec![(0, 0, CellM::plain(b'x', 12, 0)), (5, 3, CellM::plain(b'y', 10, 2)), (2, 1, CellM { ch: b'q' as u16, attr: 8, fg: 3, bg: 10, font: 0 })],
        ..base.clone()
    };
    if i == 0 {
        DocM {
            w: 12,
            h: 8,
            layers: vec![base, top],
            ice: 0,
            pal_mode: 1,
            font_mode: 0,
            buffer_type: 0,
            palette: PalM::Dos,
            fonts: vec![],
            sauce: None,
            sel: Some(SelM { ax: 1, ay: 1, lx: 5, ly: 4, rect: true, add: 0, locked: false }),
            mask: vec![],
            caret: (2, 2),
            caret_font: 0,
            cur: 1,
            mirror: false,
            transient: TransientM::default(),
        }
    } else {
        let hidden = LayerM { visible: false, ox: -2, oy: -1, storage: 1, cells: vec![(1, 1, CellM::plain(b'h', 7, 0))], ..top.clone() };
        let locked = LayerM { locked: true, full: true, alpha: true, ox: 0, oy: 0, cells: vec![(4, 4, CellM::plain(b'k', 9, 3))], ..top.clone() };
        DocM {
            w: 14,
            h: 9,
            layers: vec![LayerM { storage: 1, ..base }, hidden, locked],
            ice: 1,
            pal_mode: 1,
            font_mode: 0,
            buffer_type: 0,
            palette: PalM::Dos,
            fonts: vec![(1, 5)],
            sauce: Some(SauceM { title: "t".into(), author: "a".into(), group: "g".into(), comments: vec!["c".into()], use_ice: false, letter_spacing: false, aspect_ratio: false, font: None }),
            sel: None,
            mask: vec![(1, 1, 3, 2)],
            caret: (1, 1),
            caret_font: 0,
            cur: 0,
            mirror: false,
            transient: TransientM::default(),
        }
    }
}
