//! The oracle: run a history, undo the steps it added, redo them, walk between operation boundaries, try a new edit after an undo.
use crate::model::DocM;
use crate::ops::{Interp, Op, Touch};
use crate::snapshot::{self, Snapshot};
use icy_engine::editor::{EditState, UndoState};
use icyv::panics::guarded;
use icyv::util::pick;
use icyv::Verdict;
use serde::{Deserialize, Serialize};

#[derive(Clone, Debug, Hash, Serialize, Deserialize)]
pub struct Case {
    pub doc: DocM,
    pub ops: Vec<Op>,
    /// after the plain undo-all / redo-all round: operation boundaries to visit (monotone index into 0..=len)
    pub walk: Vec<u16>,
    /// second phase: undo 1 + pick(k, steps) steps, then run `extra` as a new edit
    pub k: u16,
    pub extra: Op,
    /// run the undo-all / redo-all round after every operation instead of once at the end
    pub stepwise: bool,
}

pub struct Failure {
    pub class: String,
    pub msg: String,
    /// index of the operation that owns the undo step crossed last (fallback culprit when no prefix fails on its own)
    pub owner: Option<usize>,
}

fn failure(class: impl Into<String>, msg: impl Into<String>) -> Failure {
    Failure { class: class.into(), msg: msg.into(), owner: None }
}

/// how a run over a list of operations ended
pub enum Run {
    /// operation `index` reported failure (Err or panic): the history ends before it
    Ended { index: usize, kind: String, panic: bool },
    /// every operation succeeded and undo/redo behaved
    Held(Box<Held>),
    Failed(Failure),
}

pub struct Held {
    pub steps: usize,
    pub changed: bool,
    pub touches: Vec<Touch>,
    pub st: Box<EditState>,
    /// stack depth (above the start of the history) after each operation; None while an atomic group is open
    pub depth_after: Vec<Option<usize>>,
    /// stamps left out because they fall into the failing class of the open finding C08-stamp-layer-down
    pub skipped_stamps: usize,
}

/// which operation pushed the undo step number `d` (1-based depth)?
fn owner_of(depth_after: &[Option<usize>], d: usize) -> Option<usize> {
    depth_after.iter().position(|x| matches!(x, Some(v) if *v >= d)).or(if depth_after.is_empty() { None } else { Some(depth_after.len() - 1) })
}

struct Mover<'a> {
    st: &'a mut EditState,
    depth: usize,
    depth_after: &'a [Option<usize>],
}

impl<'a> Mover<'a> {
    fn step(&mut self, undo: bool) -> Result<(), Failure> {
        let name = if undo { "undo" } else { "redo" };
        // the step crossed: undo pops step number `depth`, redo re-applies step number `depth + 1`
        let crossed = if undo { self.depth } else { self.depth + 1 };
        let st = &mut *self.st;
        let r = guarded(|| if undo { st.undo() } else { st.redo() });
        let owner = owner_of(self.depth_after, crossed);
        match r {
            Ok(Ok(())) => {
                if undo {
                    self.depth -= 1;
                } else {
                    self.depth += 1;
                }
                Ok(())
            }
            Ok(Err(e)) => Err(Failure { class: format!("{name}_err"), msg: format!("{name}() of step {crossed} returned Err: {e}"), owner }),
            Err((sig, msg)) => Err(Failure { class: format!("{name}_panic"), msg: format!("{name}() of step {crossed} panicked: {msg} [{sig}]"), owner }),
        }
    }

    /// move to stack depth `to`; returns true if the last movement was an undo (or none)
    fn go(&mut self, to: usize) -> Result<bool, Failure> {
        let undo = to <= self.depth;
        while self.depth > to {
            self.step(true)?;
        }
        while self.depth < to {
            self.step(false)?;
        }
        Ok(undo)
    }

    fn expect(&self, want: &Snapshot, undo: bool, what: &str) -> Result<(), Failure> {
        let got = snapshot::take(self.st.get_buffer());
        match snapshot::diff(want, &got) {
            None => Ok(()),
            Some((field, detail)) => {
                // after an undo the step crossed last is depth+1, after a redo it is depth
                let crossed = if undo { self.depth + 1 } else { self.depth };
                Err(Failure {
                    class: format!("{}_mismatch.{field}", if undo { "undo" } else { "redo" }),
                    msg: format!("{what}: {detail}"),
                    owner: owner_of(self.depth_after, crossed),
                })
            }
        }
    }

    fn expect_len(&self, base: usize) -> Result<(), Failure> {
        let len = self.st.undo_stack_len();
        if len != base + self.depth {
            return Err(failure("undo_len", format!("at depth {} the undo stack holds {len} entries, {} expected", self.depth, base + self.depth)));
        }
        Ok(())
    }

    /// undo everything, compare with the initial snapshot, redo everything, compare with `s1`
    fn round(&mut self, base: usize, s0: &Snapshot, s1: &Snapshot, what: &str) -> Result<(), Failure> {
        let g = self.depth;
        self.go(0)?;
        self.expect(s0, true, &format!("{what}: after undoing the {g} step(s) of the history"))?;
        self.expect_len(base)?;
        self.go(g)?;
        self.expect(s1, false, &format!("{what}: after undoing and redoing the {g} step(s) of the history"))?;
        self.expect_len(base)?;
        if self.st.can_redo() {
            return Err(failure("undo_len", format!("{what}: all {g} step(s) were redone but can_redo() is still true")));
        }
        Ok(())
    }
}

#[derive(Clone, Copy, PartialEq)]
pub enum Mode {
    /// one round after the history, then the generated walk over operation boundaries
    Walk,
    /// one round after every operation
    Stepwise,
    /// the deterministic predicate used to localise the culprit: twice down and up the whole history, comparing at every
    /// operation boundary with the snapshot recorded there
    Stairs,
    /// cheap first pass of the localisation: two rounds that stop only at the last operation boundary, the start and the end
    LastStep,
}

/// Core procedure on one list of operations (no second phase).
pub fn run_core(doc: &DocM, ops: &[Op], walk: &[u16], mode: Mode) -> Run {
    let targets: Vec<usize> = if mode == Mode::Walk { walk.iter().map(|m| pick(*m, ops.len() + 1)).collect() } else { Vec::new() };
    run_core_at(doc, ops, targets, mode, None)
}

/// like `run_core`, with the operation boundaries to visit given directly (number of operations executed before the boundary)
/// `model_steps`: number of undo steps the history must register (checked before any undo)
pub fn run_core_at(doc: &DocM, ops: &[Op], targets: Vec<usize>, mode: Mode, model_steps: Option<usize>) -> Run {
    let mut st = Box::new(doc.build());
    let mut it = Interp::default();
    let len0 = st.undo_stack_len();
    let s0 = snapshot::take(st.get_buffer());
    // marks[j] = snapshot after j operations, where no atomic group is open and the walk wants it
    let mut marks: Vec<Option<Snapshot>> = vec![None; ops.len() + 1];
    let mut depth_after: Vec<Option<usize>> = Vec::with_capacity(ops.len());
    let mut touches = Vec::with_capacity(ops.len());

    for (i, op) in ops.iter().enumerate() {
        let r = guarded(|| it.apply(&mut st, op));
        match r {
            Ok((Ok(()), t)) => touches.push(t),
            Ok((Err(_), _)) => {
                let _ = guarded(|| it.close_all());
                return Run::Ended { index: i, kind: op.kind(), panic: false };
            }
            Err(_) => {
                // the state may be inconsistent (poisoned lock): dispose of it under a guard
                let _ = guarded(move || {
                    it.close_all();
                    drop(st);
                });
                return Run::Ended { index: i, kind: op.kind(), panic: true };
            }
        }
        if !it.guards.is_empty() {
            depth_after.push(None);
            continue;
        }
        let len = st.undo_stack_len();
        if len < len0 {
            return Run::Failed(Failure { class: "undo_len".into(), msg: format!("undo stack shrank from {len0} to {len} during the history"), owner: Some(i) });
        }
        depth_after.push(Some(len - len0));
        if mode == Mode::Stepwise {
            let sj = snapshot::take(st.get_buffer());
            let mut mv = Mover { st: &mut st, depth: len - len0, depth_after: &depth_after };
            if let Err(mut f) = mv.round(len0, &s0, &sj, &format!("after {} operation(s)", i + 1)) {
                if f.class.contains("mismatch") {
                    f.owner = Some(i);
                }
                return Run::Failed(f);
            }
        } else if (mode == Mode::Stairs || (mode == Mode::LastStep && i + 2 == ops.len()) || targets.contains(&(i + 1))) && i + 1 < ops.len() {
            marks[i + 1] = Some(snapshot::take(st.get_buffer()));
        }
    }
    if let Err((sig, msg)) = guarded(|| it.close_all()) {
        return Run::Failed(failure("undo_panic", format!("closing the atomic groups panicked: {msg} [{sig}]")));
    }
    let len1 = st.undo_stack_len();
    if len1 < len0 {
        return Run::Failed(failure("undo_len", format!("undo stack shrank from {len0} to {len1} during the history")));
    }
    let g = len1 - len0;
    if let Some(m) = model_steps {
        if m != g {
            return Run::Failed(failure(
                "undo_len",
                format!("the model counts {m} undo step(s) for this history (one per step operation, one per atomic group) but the undo stack grew by {g} (from {len0} to {len1})"),
            ));
        }
    }
    if let Some(last) = depth_after.last_mut() {
        *last = Some(g); // groups still open were closed just now
    }
    let s1 = snapshot::take(st.get_buffer());
    let changed = s1 != s0;

    let res = (|| {
        let mut mv = Mover { st: &mut st, depth: g, depth_after: &depth_after };
        mv.round(len0, &s0, &s1, "first round")?;
        if mode == Mode::Stepwise {
            // once more, so that a step that only works the first time is found here and not in the second phase
            mv.round(len0, &s0, &s1, "second round")?;
        }
        if mode == Mode::Stairs || mode == Mode::LastStep {
            let at = |t: usize| -> Option<(usize, &Snapshot)> {
                if t == 0 {
                    Some((0, &s0))
                } else if t == ops.len() {
                    Some((g, &s1))
                } else {
                    match (&marks[t], depth_after[t - 1]) {
                        (Some(s), Some(d)) if d <= g => Some((d, s)),
                        _ => None,
                    }
                }
            };
            for round in 1..=2 {
                for t in (0..ops.len()).rev() {
                    if let Some((d, want)) = at(t) {
                        mv.go(d)?;
                        mv.expect(want, true, &format!("descent {round}: undone down to the state after {t} operation(s) (depth {d} of {g})"))?;
                        mv.expect_len(len0)?;
                    }
                }
                for t in 1..=ops.len() {
                    if let Some((d, want)) = at(t) {
                        mv.go(d)?;
                        mv.expect(want, false, &format!("ascent {round}: redone up to the state after {t} operation(s) (depth {d} of {g})"))?;
                        mv.expect_len(len0)?;
                    }
                }
            }
        }
        // the walk: visit operation boundaries in the generated order
        for t in &targets {
            let (to, want) = if *t == 0 {
                (0, &s0)
            } else if *t == ops.len() {
                (g, &s1)
            } else {
                match (&marks[*t], depth_after[*t - 1]) {
                    (Some(s), Some(d)) if d <= g => (d, s),
                    _ => continue, // boundary inside an atomic group
                }
            };
            let undo = mv.go(to)?;
            mv.expect(want, undo, &format!("walk to the state after {t} operation(s) (stack depth {to} of {g})"))?;
            mv.expect_len(len0)?;
        }
        mv.go(g)?;
        Ok(())
    })();
    match res {
        Ok(()) => Run::Held(Box::new(Held { steps: g, changed, touches, st, depth_after, skipped_stamps: it.skipped_stamps })),
        Err(f) => Run::Failed(f),
    }
}

fn bucket(n: usize) -> &'static str {
    match n {
        0..=3 => "n=1-3",
        4..=10 => "n=4-10",
        _ => "n=11-40",
    }
}

/// non-triviality: the history changed the document and worked twice on one layer, or reordered layers and then edited cells
fn nontrivial(changed: bool, touches: &[Touch]) -> bool {
    if !changed {
        return false;
    }
    let mut seen: Vec<usize> = Vec::new();
    let mut twice = false;
    let mut reordered = false;
    let mut reorder_then_edit = false;
    for t in touches {
        if t.cell_edit && reordered {
            reorder_then_edit = true;
        }
        if let Some(l) = t.layer {
            if seen.contains(&l) {
                twice = true;
            }
            seen.push(l);
        }
        if t.reorder {
            reordered = true;
        }
    }
    twice || reorder_then_edit
}

pub fn check(c: &Case) -> Verdict {
    if std::env::var_os("C08_TRACE").is_some() {
        trace(c);
    }
    let mode = if c.stepwise { Mode::Stepwise } else { Mode::Walk };
    // 1. where does the history end? (the property speaks about operations that report success)
    let mut ops: &[Op] = &c.ops;
    let mut ended: Option<(String, bool)> = None;
    let mut run = run_core(&c.doc, ops, &c.walk, mode);
    let mut reruns = 0;
    while let Run::Ended { index, kind, panic } = &run {
        if ended.is_none() {
            ended = Some((kind.clone(), *panic));
        }
        ops = &ops[..*index];
        reruns += 1;
        if ops.is_empty() || reruns > 3 {
            let (k, p) = ended.unwrap();
            return Verdict::pass(false, format!("{}|{k}|nothing_before", if p { "ended_panic" } else { "ended_err" }));
        }
        run = run_core(&c.doc, ops, &c.walk, mode);
    }
    let held = match run {
        Run::Ended { .. } => unreachable!(),
        Run::Failed(f) => return localise(c, ops, f),
        Run::Held(h) => *h,
    };
    let Held { steps, changed, touches, mut st, depth_after, skipped_stamps } = held;

    // 2. a new edit after an undo discards the redo history
    let mut phase2 = "no_steps";
    if steps > 0 {
        let k = 1 + pick(c.k, steps);
        let mut mv = Mover { st: &mut st, depth: steps, depth_after: &depth_after };
        if let Err(f) = mv.go(steps - k) {
            // the same steps were undone and redone before: undo is not repeatable
            return localise(c, ops, Failure { msg: format!("second phase (undo {k} of {steps} steps again): {}", f.msg), ..f });
        }
        let before = st.undo_stack_len();
        let mut it = Interp::default();
        let extra = &c.extra;
        let r = guarded(|| it.apply(&mut st, extra));
        let _ = guarded(|| it.close_all());
        match r {
            Ok((Ok(()), _)) => {
                if st.undo_stack_len() > before {
                    phase2 = "new_edit";
                    if st.can_redo() {
                        return Verdict::fail(
                            format!("redo_not_cleared|culprit={}", extra.kind()),
                            format!("after undoing {k} of {steps} step(s) the new edit {:?} registered an undo step but redo is still possible", extra),
                        );
                    }
                } else {
                    phase2 = "extra_no_step";
                }
            }
            Ok((Err(_), _)) => phase2 = "extra_err",
            Err(_) => {
                phase2 = "extra_panic";
                let _ = guarded(move || drop(st));
            }
        }
    }
    let nt = nontrivial(changed, &touches);
    let class = match &ended {
        None => format!("complete|{}|{}{}", bucket(ops.len()), phase2, if skipped_stamps > 0 { "|stamp_in_known_class_left_out" } else { "" }),
        Some((k, p)) => format!("{}|{k}", if *p { "ended_panic" } else { "ended_err" }),
    };
    Verdict::pass(nt, class)
}

/// The culprit is the last operation of the shortest prefix that fails the deterministic staircase rounds on a fresh editor.
/// If no prefix fails on its own (the failure needs the walk, the stepwise rounds or a third pass), the operation that owns
/// the undo step crossed last is named instead and the key says so.
fn localise(c: &Case, ops: &[Op], f: Failure) -> Verdict {
    // harness-made atomic groups hide which operation owns a step: look at the history without them first
    let flat: Vec<Op> = ops.iter().filter(|o| !matches!(o, Op::BeginAtomic | Op::EndAtomic { .. })).cloned().collect();
    if flat.len() != ops.len() {
        if let Some(v) = scan_prefixes(c, &flat, &f, " (atomic group markers removed)") {
            return v;
        }
    }
    if let Some(v) = scan_prefixes(c, ops, &f, "") {
        return v;
    }
    if c.stepwise {
        // the failure needs the rounds between the operations: replay exactly that on every prefix (open groups are closed
        // at the end of a prefix, which also tells operations inside a group apart)
        if flat.len() != ops.len() {
            if let Some(v) = scan_with(c, &flat, &f, " (stepwise, atomic group markers removed)", Mode::Stepwise) {
                return v;
            }
        }
        if let Some(v) = scan_with(c, ops, &f, " (stepwise)", Mode::Stepwise) {
            return v;
        }
    }
    let culprit = f.owner.and_then(|i| ops.get(i));
    let kind = culprit.map(|o| o.kind()).unwrap_or_else(|| "?".into());
    Verdict::fail(
        // stepwise cases name the operation whose round failed: same meaning as the prefix rule, no suffix
        format!("{}|culprit={}{}", f.class, kind, if c.stepwise { "" } else { "|only_in_walk" }),
        format!("no prefix fails the staircase rounds on a fresh editor; owner of the step crossed last: {:?}; {}", culprit, f.msg),
    )
}

fn scan_prefixes(c: &Case, ops: &[Op], f: &Failure, note: &str) -> Option<Verdict> {
    scan_with(c, ops, f, note, Mode::LastStep).or_else(|| scan_with(c, ops, f, note, Mode::Stairs))
}

/// was the stamp that follows `before` in the failing class of the known finding? (state rebuilt on a fresh editor)
fn stamp_in_known_class(doc: &DocM, before: &[Op]) -> bool {
    let r = guarded(|| {
        let mut st = doc.build();
        let mut it = Interp::default();
        for op in before {
            let _ = it.apply(&mut st, op);
        }
        let res = crate::ops::stamp_known_class(&st);
        it.close_all();
        res
    });
    matches!(r, Ok(Some(true)))
}

fn scan_with(c: &Case, ops: &[Op], f: &Failure, note: &str, mode: Mode) -> Option<Verdict> {
    for p in 1..=ops.len() {
        match run_core(&c.doc, &ops[..p], &[], mode) {
            Run::Failed(pf) => {
                // a step that returns Err or panics names its own operation; a wrong document names the operation that made
                // the prefix fail
                let own = if pf.class.ends_with("_err") || pf.class.ends_with("_panic") { pf.owner.filter(|i| *i < p) } else { None };
                let ci = own.unwrap_or(p - 1);
                let culprit = &ops[ci];
                // a stamp outside the failing class of the known finding C08-stamp-layer-down is a different defect
                let tag = if matches!(culprit, Op::StampLayerDown | Op::StampLayerDownSteered) && !stamp_in_known_class(&c.doc, &ops[..ci]) { "|outside_known_stamp_class" } else { "" };
                return Some(Verdict::fail(
                    format!("{}|culprit={}{tag}", pf.class, culprit.kind()),
                    format!(
                        "shortest failing prefix{note}: {p} of {} operation(s) (last one {:?}), culprit {:?}; {} (the case itself failed with {}: {})",
                        ops.len(),
                        ops[p - 1],
                        culprit,
                        pf.msg,
                        f.class,
                        f.msg
                    ),
                ));
            }
            Run::Ended { .. } => return None, // without the group markers an operation behaves differently: not comparable
            Run::Held(_) => {}
        }
    }
    None
}

// ---------------------------------------------------------------------------------------------------------------------
// long histories: history length is a dimension of its own (caps at 256 / 512 / 1024 / 4096 steps ...)

/// A long history in compact form: item i of the history is a pure function of (seed, i), so shortening `n` keeps the
/// first items unchanged. Every item is cheap and always succeeds on the small document; items marked "step" register
/// exactly one undo step (an atomic group of 2..=5 set_char counts as one).
#[derive(Clone, Debug, Hash, Serialize, Deserialize)]
pub struct LongCase {
    pub w: u8,
    pub h: u8,
    pub two_layers: bool,
    pub seed: u64,
    /// number of items
    pub n: u32,
    /// atomic groups of 2..=5 set_char
    pub groups: bool,
    /// whole-buffer steps: resize_buffer with/without layers, set_ice_mode, set_palette_mode (their undo records hold copies of all layers)
    pub whole: bool,
    /// an occasional flip_x / flip_y (about one item in 400)
    pub flips: bool,
}

fn mix(seed: u64, i: u64, k: u64) -> u64 {
    // splitmix64 over (seed, item, draw)
    let mut z = seed ^ i.wrapping_mul(0x9E37_79B9_7F4A_7C15) ^ k.wrapping_mul(0xD1B5_4A32_D192_ED03);
    z = z.wrapping_add(0x9E37_79B9_7F4A_7C15);
    z = (z ^ (z >> 30)).wrapping_mul(0xBF58_476D_1CE4_E5B9);
    z = (z ^ (z >> 27)).wrapping_mul(0x94D0_49BB_1331_11EB);
    z ^ (z >> 31)
}

pub struct LongHistory {
    pub doc: DocM,
    pub ops: Vec<Op>,
    /// item_end[j] = number of operations after item j
    pub item_end: Vec<usize>,
    /// undo steps the items register according to the model
    pub steps: usize,
}

pub fn expand_long(c: &LongCase) -> LongHistory {
    use crate::model::{CellM, LayerM, PalM};
    let (w, h) = (c.w.clamp(10, 20), c.h.clamp(8, 12));
    let cellm = |r: u64| CellM { ch: crate::model::CHARS[(r % 20) as usize], attr: [0u16, 0, 1, 8, 0x10][((r >> 8) % 5) as usize], fg: ((r >> 16) % 16) as u32, bg: ((r >> 24) % 8) as u32, font: 0 };
    let base = LayerM {
        full: true,
        w,
        h,
        ox: 0,
        oy: 0,
        alpha: false,
        visible: true,
        locked: false,
        pos_locked: false,
        alpha_locked: false,
        mode: 0,
        role: 0,
        transparency: 0,
        default_font_page: 0,
        storage: 0,
        preview: None,
        stripes: vec![],
        cells: (0..8).map(|k| ((mix(c.seed, 1 << 40, k) % w as u64) as u8, (mix(c.seed, 1 << 41, k) % h as u64) as u8, cellm(mix(c.seed, 1 << 42, k)))).collect(),
    };
    let mut layers = vec![base.clone()];
    if c.two_layers {
        layers.push(LayerM { full: false, w: 6, h: 4, ox: 2, oy: 1, alpha: true, cells: (0..4).map(|k| ((mix(c.seed, 1 << 43, k) % 6) as u8, (mix(c.seed, 1 << 44, k) % 4) as u8, cellm(mix(c.seed, 1 << 45, k)))).collect(), ..base });
    }
    let doc = DocM {
        w,
        h,
        layers,
        ice: 0,
        pal_mode: 1,
        font_mode: 0,
        buffer_type: 0,
        palette: PalM::Dos,
        fonts: vec![],
        sauce: None,
        sel: None,
        mask: vec![],
        caret: (1, 1),
        caret_font: 0,
        cur: 0,
        mirror: false,
        transient: Default::default(),
    };
    let mut ops = Vec::with_capacity(c.n as usize + c.n as usize / 4);
    let mut item_end = Vec::with_capacity(c.n as usize);
    let mut steps = 0usize;
    let set_char = |r: u64| Op::SetChar { x: (r % 8) as i8, y: ((r >> 8) % 6) as i8, c: cellm(r >> 16) };
    for i in 0..c.n as u64 {
        let r = mix(c.seed, i, 0);
        let sel = r % 400;
        let a = mix(c.seed, i, 1);
        match sel {
            0 if c.flips => {
                ops.push(if a & 1 == 0 { Op::FlipX } else { Op::FlipY });
                steps += 1;
            }
            1..=32 if c.groups => {
                ops.push(Op::BeginAtomic);
                for k in 0..2 + a % 4 {
                    ops.push(set_char(mix(c.seed, i, 2 + k)));
                }
                ops.push(Op::EndAtomic { explicit: a & 16 != 0 });
                steps += 1;
            }
            33..=40 if c.whole => {
                ops.push(Op::SetIceMode { m: (a % 3) as u8 });
                steps += 1;
            }
            41..=46 if c.whole => {
                ops.push(Op::SetPaletteMode { m: [0u8, 1, 3][(a % 3) as usize] });
                steps += 1;
            }
            47..=54 if c.whole => {
                // never smaller than 8x6: both layers keep intersecting the buffer
                ops.push(Op::ResizeBuffer { layers: a & 1 == 0, w: 8 + ((a >> 8) % 13) as u8, h: 6 + ((a >> 16) % 7) as u8 });
                steps += 1;
            }
            55..=78 => {
                // offsets stay >= 0: a resize with layers crops every layer to the buffer, and with negative offsets the layers would
                // erode to nothing over a long history (and the next resize / move would fail)
                ops.push(Op::MoveLayer { x: (a % 4) as i8, y: ((a >> 8) % 3) as i8 });
                steps += 1;
            }
            79..=86 => {
                ops.push(Op::SwapChar { x1: (a % 8) as i8, y1: ((a >> 8) % 6) as i8, x2: ((a >> 16) % 8) as i8, y2: ((a >> 24) % 6) as i8 });
                steps += 1;
            }
            87..=100 => ops.push(Op::MoveCaret { x: (a % 10) as i8, y: ((a >> 8) % 8) as i8 }),
            // a drag in progress: no undo step of its own, the next move_layer commits it
            101..=106 => ops.push(Op::Drag { x: (a % 6) as i8, y: ((a >> 8) % 4) as i8 }),
            107..=118 => ops.push(Op::SetCurrentLayer { l: (a % 240) as u8 }),
            _ => {
                ops.push(set_char(a));
                steps += 1;
            }
        }
        item_end.push(ops.len());
    }
    LongHistory { doc, ops, item_end, steps }
}

fn long_band(n: u32) -> &'static str {
    match n {
        0..=99 => "n<100",
        100..=199 => "n=100-199",
        200..=399 => "n=200-399",
        400..=799 => "n=400-799",
        800..=1599 => "n=800-1599",
        1600..=3199 => "n=1600-3199",
        3200..=6399 => "n=3200-6399",
        _ => "n>=6400",
    }
}

/// Oracle of the part `long_histories`: the plain round (undo all -> initial snapshot, redo all -> final snapshot, stack
/// lengths, nothing left to redo), the number of registered steps against the model (one per step item, one per atomic
/// group), and a walk "undo to the boundary, compare with the snapshot recorded there" for the boundaries one item before
/// the end, in the middle, after the first item and back to the end.
pub fn check_long(c: &LongCase) -> Verdict {
    let mut lh = expand_long(c);
    let mut ended = None;
    let mut tries = 0;
    let held = loop {
        let n = lh.item_end.len();
        if n == 0 {
            return Verdict::pass(false, "long|ended_at_first_item");
        }
        let at = |j: usize| lh.item_end[j.min(n - 1)];
        // boundaries: before the last item, the middle, after the first item, the end again
        let targets = vec![if n >= 2 { at(n - 2) } else { 0 }, at(n / 2), at(0), lh.ops.len()];
        match run_core_at(&lh.doc, &lh.ops, targets, Mode::Walk, Some(lh.steps)) {
            Run::Ended { index, kind, panic } => {
                // the alphabet is chosen to succeed always; if an operation fails anyway the history ends before its item
                tries += 1;
                ended.get_or_insert((kind, panic));
                let keep = lh.item_end.iter().take_while(|e| **e <= index).count();
                if tries > 3 {
                    return Verdict::pass(false, "long|ended_repeatedly");
                }
                let full = expand_long(&LongCase { n: keep as u32, ..c.clone() });
                lh = full;
            }
            Run::Failed(f) => {
                let owner = f.owner.and_then(|i| lh.ops.get(i)).map(|o| o.kind()).unwrap_or_else(|| "?".into());
                return Verdict::fail(
                    format!("{}|long_history", f.class),
                    format!("history of {} item(s) = {} operation(s), {} undo step(s) by the model; {} (operation owning the step crossed last: {owner})", n, lh.ops.len(), lh.steps, f.msg),
                );
            }
            Run::Held(h) => break *h,
        }
    };
    let _ = guarded(move || drop(held.st));
    let class = match ended {
        None => format!("long|{}", long_band(c.n)),
        Some((k, p)) => format!("long|{}|{k}", if p { "ended_panic" } else { "ended_err" }),
    };
    Verdict::pass(held.changed && lh.steps >= 50, class)
}

pub fn minimize_long(c: &LongCase) -> Vec<LongCase> {
    let mut out = Vec::new();
    for n in [c.n / 2, c.n * 3 / 4, c.n.saturating_sub(64), c.n.saturating_sub(8), c.n.saturating_sub(1)] {
        if n >= 1 && n < c.n && !out.iter().any(|x: &LongCase| x.n == n) {
            out.push(LongCase { n, ..c.clone() });
        }
    }
    if c.flips {
        out.push(LongCase { flips: false, ..c.clone() });
    }
    if c.whole {
        out.push(LongCase { whole: false, ..c.clone() });
    }
    if c.groups {
        out.push(LongCase { groups: false, ..c.clone() });
    }
    if c.two_layers {
        out.push(LongCase { two_layers: false, ..c.clone() });
    }
    if c.seed != 0 {
        out.push(LongCase { seed: 0, ..c.clone() });
    }
    out
}

/// Simpler candidates for the engine's greedy minimiser (tried after proptest's own shrinking).
pub fn minimize(c: &Case) -> Vec<Case> {
    let mut out = Vec::new();
    for i in 0..c.ops.len() {
        let mut n = c.clone();
        n.ops.remove(i);
        if !n.ops.is_empty() {
            out.push(n);
        }
    }
    if !c.walk.is_empty() {
        out.push(Case { walk: Vec::new(), ..c.clone() });
    }
    if c.stepwise {
        out.push(Case { stepwise: false, ..c.clone() });
    }
    let d = &c.doc;
    let with = |f: &dyn Fn(&mut DocM)| {
        let mut n = c.clone();
        f(&mut n.doc);
        n
    };
    if d.layers.len() > 1 {
        for j in 0..d.layers.len() {
            out.push(with(&|d| {
                d.layers.remove(j);
            }));
        }
    }
    for j in 0..d.layers.len() {
        let l = &d.layers[j];
        for k in 0..l.cells.len() {
            out.push(with(&|d| {
                d.layers[j].cells.remove(k);
            }));
        }
        if l.locked || l.pos_locked || l.alpha_locked || !l.visible || l.mode != 0 || l.role != 0 || l.transparency != 0 || l.default_font_page != 0 {
            out.push(with(&|d| {
                let l = &mut d.layers[j];
                l.locked = false;
                l.pos_locked = false;
                l.alpha_locked = false;
                l.visible = true;
                l.mode = 0;
                l.role = 0;
                l.transparency = 0;
                l.default_font_page = 0;
            }));
        }
        for (name, on) in [("locked", l.locked), ("pos", l.pos_locked), ("alock", l.alpha_locked), ("hidden", !l.visible), ("alpha", l.alpha), ("storage", l.storage != 0), ("off", l.ox != 0 || l.oy != 0)] {
            if on {
                out.push(with(&|d| {
                    let l = &mut d.layers[j];
                    match name {
                        "locked" => l.locked = false,
                        "pos" => l.pos_locked = false,
                        "alock" => l.alpha_locked = false,
                        "hidden" => l.visible = true,
                        "alpha" => l.alpha = false,
                        "storage" => l.storage = 0,
                        _ => {
                            l.ox = 0;
                            l.oy = 0;
                        }
                    }
                }));
            }
        }
    }
    if d.sel.is_some() {
        out.push(with(&|d| d.sel = None));
    }
    for j in 0..d.layers.len() {
        for k in 0..d.layers[j].stripes.len() {
            out.push(with(&|d| {
                d.layers[j].stripes.remove(k);
            }));
        }
    }
    if d.layers.iter().any(|l| l.preview.is_some()) {
        out.push(with(&|d| d.layers.iter_mut().for_each(|l| l.preview = None)));
    }
    if d.transient != crate::model::TransientM::default() {
        out.push(with(&|d| d.transient = Default::default()));
    }
    if !d.mask.is_empty() {
        out.push(with(&|d| d.mask.clear()));
    }
    if d.sauce.is_some() {
        out.push(with(&|d| d.sauce = None));
    }
    if !d.fonts.is_empty() {
        out.push(with(&|d| d.fonts.clear()));
    }
    if d.palette != crate::model::PalM::Dos {
        out.push(with(&|d| d.palette = crate::model::PalM::Dos));
    }
    if d.ice != 0 || d.pal_mode != 1 || d.font_mode != 0 || d.buffer_type != 0 || d.mirror || d.caret_font != 0 {
        out.push(with(&|d| {
            d.ice = 0;
            d.pal_mode = 1;
            d.font_mode = 0;
            d.buffer_type = 0;
            d.mirror = false;
            d.caret_font = 0;
        }));
    }
    if (d.w, d.h) != (12, 8) {
        out.push(with(&|d| {
            d.w = 12;
            d.h = 8;
        }));
    }
    out
}

/// Debug aid for replaying a case by hand (`C08_TRACE=1 c08 --replay file`): prints every layer after each operation and each
/// undo / redo step of one plain round.
pub fn trace(c: &Case) {
    fn dump(st: &EditState, what: &str) {
        use icy_engine::TextPane;
        println!("--- {what}: stack={} cur={:?} size={:?} sel={:?}", st.undo_stack_len(), st.get_current_layer().ok(), (st.get_buffer().get_width(), st.get_buffer().get_height()), st.get_selection());
        for (i, l) in st.get_buffer().layers.iter().enumerate() {
            println!(
                "  layer {i} '{}' size={}x{} off={:?} rows_alloc={} vis={} lock={} alpha={} role={:?} row_lens={:?}",
                l.properties.title,
                l.get_width(),
                l.get_height(),
                (l.get_offset().x, l.get_offset().y),
                l.lines.len(),
                l.properties.is_visible,
                l.properties.is_locked,
                l.properties.has_alpha_channel,
                l.role,
                l.lines.iter().map(|x| x.chars.len()).collect::<Vec<_>>()
            );
            for y in 0..l.get_height().min(40) {
                let row: String = (0..l.get_width().min(80))
                    .map(|x| {
                        let ch = l.get_char((x, y));
                        if !ch.is_visible() {
                            '.'
                        } else if (ch.ch as u32) < 33 || (ch.ch as u32) > 126 {
                            '#'
                        } else {
                            ch.ch
                        }
                    })
                    .collect();
                println!("    {row}");
            }
        }
    }
    let mut st = c.doc.build();
    let mut it = Interp::default();
    let len0 = st.undo_stack_len();
    dump(&st, "initial");
    for op in &c.ops {
        let r = guarded(|| it.apply(&mut st, op));
        match r {
            Ok((Ok(()), _)) => dump(&st, &format!("after {op:?}")),
            Ok((Err(e), _)) => {
                println!("--- {op:?} returned Err: {e} (history ends)");
                break;
            }
            Err((_, m)) => {
                println!("--- {op:?} panicked: {m} (history ends)");
                return;
            }
        }
    }
    it.close_all();
    let g = st.undo_stack_len() - len0;
    for i in 0..g {
        let d = st.undo_description();
        let r = guarded(|| st.undo());
        dump(&st, &format!("undo {} ({d:?}) -> {r:?}", i + 1));
        if !matches!(r, Ok(Ok(()))) {
            return;
        }
    }
    for i in 0..g {
        let d = st.redo_description();
        let r = guarded(|| st.redo());
        dump(&st, &format!("redo {} ({d:?}) -> {r:?}", i + 1));
        if !matches!(r, Ok(Ok(()))) {
            return;
        }
    }
}
