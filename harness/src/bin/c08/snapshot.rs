//! Observational snapshot of a document: everything the property statement lists, read through public accessors.
use icy_engine::{BitFont, Buffer, Layer, Properties, Role, TextPane};
use std::collections::BTreeMap;

#[derive(Clone, Debug, PartialEq, Eq)]
pub struct CellS {
    pub ch: u32,
    pub attr: u16,
    pub fg: u32,
    pub bg: u32,
    pub font: u32,
}

#[derive(Clone, Debug, PartialEq)]
pub struct LayerS {
    pub size: (i32, i32),
    pub offset: (i32, i32),
    pub properties: Properties,
    pub role: Role,
    pub transparency: u8,
    pub default_font_page: usize,
    /// row-major, every cell inside `size`
    pub cells: Vec<CellS>,
}

#[derive(Clone, Debug, PartialEq, Eq)]
pub struct FontS {
    pub name: String,
    pub size: (i32, i32),
    pub length: i32,
    pub glyph_count: usize,
    pub glyph_hash: u64,
}

#[derive(Clone, Debug, PartialEq)]
pub struct Snapshot {
    pub size: (i32, i32),
    pub ice_mode: String,
    pub palette_mode: String,
    pub font_mode: String,
    pub buffer_type: String,
    pub palette: Vec<(u8, u8, u8)>,
    pub fonts: BTreeMap<usize, FontS>,
    pub sauce: Option<Vec<String>>,
    pub layers: Vec<LayerS>,
}

fn font_s(f: &BitFont) -> FontS {
    // FNV-1a over (code point, glyph rows) in code-point order: independent of HashMap iteration order
    let mut h: u64 = 0xcbf29ce484222325;
    let mut mix = |b: u8| {
        h ^= b as u64;
        h = h.wrapping_mul(0x100000001b3);
    };
    let mut keys: Vec<char> = f.glyphs.keys().copied().collect();
    keys.sort_unstable();
    for k in &keys {
        for b in (*k as u32).to_le_bytes() {
            mix(b);
        }
        let g = &f.glyphs[k];
        mix(g.data.len() as u8);
        for b in &g.data {
            mix(*b);
        }
    }
    FontS { name: f.name.clone(), size: (f.size.width, f.size.height), length: f.length, glyph_count: keys.len(), glyph_hash: h }
}

fn layer_s(l: &Layer) -> LayerS {
    let (w, h) = (l.get_width(), l.get_height());
    let mut cells = Vec::with_capacity((w.max(0) * h.max(0)).min(1 << 20) as usize);
    // sizes are bounded by the generator; a corrupted (huge) size is cut off here and still shows up as a size mismatch
    for y in 0..h.min(2048) {
        for x in 0..w.min(2048) {
            let c = l.get_char((x, y));
            // the font page of an invisible cell is not observable in any rendering and the engine itself pads rows with
            // font-page-0 invisibles regardless of the layer's default page: not part of "every cell" here
            let font = if c.is_visible() { c.attribute.get_font_page() as u32 } else { 0 };
            cells.push(CellS { ch: c.ch as u32, attr: c.attribute.attr, fg: c.attribute.get_foreground(), bg: c.attribute.get_background(), font });
        }
    }
    LayerS {
        size: (w, h),
        // the stored offset; a pending preview offset (drag in progress) is front-end state that undo may clear
        offset: (l.get_base_offset().x, l.get_base_offset().y),
        properties: l.properties.clone(),
        role: l.role,
        transparency: l.transparency,
        default_font_page: l.default_font_page,
        cells,
    }
}

pub fn take(buf: &Buffer) -> Snapshot {
    let sauce = buf.get_sauce().as_ref().map(|s| {
        let mut v = vec![
            format!("title={}", s.title),
            format!("author={}", s.author),
            format!("group={}", s.group),
            format!("data_type={:?}", s.data_type),
            format!("buffer_size={}x{}", s.buffer_size.width, s.buffer_size.height),
            format!("font={:?}", s.font_opt),
            format!("ice={} ls={} ar={}", s.use_ice, s.use_letter_spacing, s.use_aspect_ratio),
            format!("file_type={:?}", s.sauce_file_type),
        ];
        for c in &s.comments {
            v.push(format!("comment={c}"));
        }
        v
    });
    Snapshot {
        size: (buf.get_width(), buf.get_height()),
        ice_mode: format!("{:?}", buf.ice_mode),
        palette_mode: format!("{:?}", buf.palette_mode),
        font_mode: format!("{:?}", buf.font_mode),
        buffer_type: format!("{:?}", buf.buffer_type),
        palette: buf.palette.color_iter().map(|c| c.get_rgb()).collect(),
        fonts: buf.font_iter().map(|(k, f)| (*k, font_s(f))).collect(),
        sauce,
        layers: buf.layers.iter().map(layer_s).collect(),
    }
}

fn layer_key(l: &LayerS) -> String {
    format!("{:?}", l)
}

/// First differing field (`want` is the reference): (field name for the failure key, details for the message).
pub fn diff(want: &Snapshot, got: &Snapshot) -> Option<(String, String)> {
    macro_rules! fld {
        ($f:ident, $name:expr) => {
            if want.$f != got.$f {
                return Some(($name.to_string(), format!("{}: want {:?}, got {:?}", $name, want.$f, got.$f)));
            }
        };
    }
    fld!(size, "buffer_size");
    fld!(ice_mode, "ice_mode");
    fld!(palette_mode, "palette_mode");
    fld!(font_mode, "font_mode");
    fld!(buffer_type, "buffer_type");
    fld!(palette, "palette");
    if want.fonts != got.fonts {
        let w: Vec<_> = want.fonts.iter().map(|(k, f)| (k, &f.name, f.glyph_hash)).collect();
        let g: Vec<_> = got.fonts.iter().map(|(k, f)| (k, &f.name, f.glyph_hash)).collect();
        return Some(("fonts".into(), format!("fonts: want {w:?}, got {g:?}")));
    }
    fld!(sauce, "sauce");
    if want.layers.len() != got.layers.len() {
        return Some(("layer_count".into(), format!("layer count: want {}, got {}", want.layers.len(), got.layers.len())));
    }
    if want.layers != got.layers {
        // same layers in another order?
        let mut a: Vec<String> = want.layers.iter().map(layer_key).collect();
        let mut b: Vec<String> = got.layers.iter().map(layer_key).collect();
        a.sort();
        b.sort();
        if a == b {
            let order: Vec<&str> = got.layers.iter().map(|l| l.properties.title.as_str()).collect();
            let worder: Vec<&str> = want.layers.iter().map(|l| l.properties.title.as_str()).collect();
            return Some(("layer_order".into(), format!("same layers, different stack order: want {worder:?}, got {order:?}")));
        }
    }
    for (i, (w, g)) in want.layers.iter().zip(&got.layers).enumerate() {
        macro_rules! lf {
            ($f:ident, $name:expr) => {
                if w.$f != g.$f {
                    return Some(($name.to_string(), format!("layer {i} ({}) {}: want {:?}, got {:?}", w.properties.title, $name, w.$f, g.$f)));
                }
            };
        }
        lf!(size, "layer_size");
        lf!(offset, "layer_offset");
        lf!(properties, "layer_properties");
        lf!(role, "layer_role");
        lf!(transparency, "layer_transparency");
        lf!(default_font_page, "layer_default_font_page");
        if w.cells != g.cells {
            let width = w.size.0.max(1) as usize;
            let n = w.cells.iter().zip(&g.cells).filter(|(a, b)| a != b).count();
            let (k, (a, b)) = w.cells.iter().zip(&g.cells).enumerate().find(|(_, (a, b))| a != b).unwrap();
            let only_font = w.cells.iter().zip(&g.cells).all(|(a, b)| a.ch == b.ch && a.attr == b.attr && a.fg == b.fg && a.bg == b.bg);
            let name = if only_font { "layer_cells_font_page" } else { "layer_cells" };
            return Some((name.into(), format!("layer {i} ({}) {n} cell(s) differ, first at ({},{}): want {:?}, got {:?}", w.properties.title, k % width, k / width, a, b)));
        }
    }
    if want != got {
        return Some(("other".into(), "snapshots differ".into()));
    }
    None
}
