//! The operation alphabet: a serialisable enum over the public editing entry points of `EditState`, its interpreter and
//! its generators.
use crate::model::*;
use icy_engine::editor::{AtomicUndoGuard, EditState, OperationType, UndoOperation};
use icy_engine::{AttributedChar, BitFont, EngineResult, Position, Properties, Rectangle, Sixel, TextPane, SAUCE_FONT_NAMES};
use icyv::proptest::prelude::*;
use serde::{Deserialize, Serialize};

#[derive(Clone, Debug, Hash, PartialEq, Eq, Serialize, Deserialize)]
pub struct PropsM {
    pub title: u8,
    pub color: Option<(u8, u8, u8)>,
    pub visible: bool,
    pub locked: bool,
    pub pos_locked: bool,
    pub alpha_locked: bool,
    pub alpha: bool,
    pub mode: u8,
    pub ox: i8,
    pub oy: i8,
}

impl PropsM {
    fn build(&self) -> Properties {
        Properties {
            title: format!("P{}", self.title),
            color: self.color.map(|(r, g, b)| icy_engine::Color::new(r, g, b)),
            is_visible: self.visible,
            is_locked: self.locked,
            is_position_locked: self.pos_locked,
            is_alpha_channel_locked: self.alpha_locked,
            has_alpha_channel: self.alpha,
            mode: mode_of(self.mode),
            offset: Position::new(self.ox as i32, self.oy as i32),
        }
    }
}

#[derive(Clone, Debug, Hash, PartialEq, Eq, Serialize, Deserialize)]
pub enum FontM {
    Ansi(u8),
    Custom { height: u8, seed: u8 },
}

impl FontM {
    fn build(&self) -> EngineResult<BitFont> {
        match self {
            FontM::Ansi(p) => BitFont::from_ansi_font_page(*p as usize),
            FontM::Custom { height, seed } => {
                let h = (*height).clamp(1, 32) as usize;
                let data: Vec<u8> = (0..256 * h).map(|i| (i as u8).wrapping_mul(*seed | 1).rotate_left((i / 7) as u32 & 7)).collect();
                Ok(BitFont::create_8(format!("custom{seed}"), 8, h as u8, &data))
            }
        }
    }
}

/// Layer argument: values < 240 are mapped monotonically onto the layers that exist when the operation runs,
/// 240.. are the boundary values len, len+1, len+2 (out of range).
pub fn lref(v: u8, len: usize) -> usize {
    if v < 240 {
        (v as usize * len.max(1)) / 240
    } else {
        len + (v - 240) as usize
    }
}

/// like `lref`, but the in-range values are spread over `lo..hi` (e.g. the layers that can be raised / merged down)
pub fn lref_in(v: u8, lo: usize, hi: usize, len: usize) -> usize {
    if v < 240 && hi > lo {
        lo + (v as usize * (hi - lo)) / 240
    } else if v < 240 {
        0
    } else {
        len + (v - 240) as usize
    }
}

#[derive(Clone, Debug, Hash, PartialEq, Eq, Serialize, Deserialize)]
pub enum Op {
    SetChar { x: i8, y: i8, c: CellM },
    SwapChar { x1: i8, y1: i8, x2: i8, y2: i8 },
    AddNewLayer { l: u8 },
    RemoveLayer { l: u8 },
    RaiseLayer { l: u8 },
    LowerLayer { l: u8 },
    DuplicateLayer { l: u8 },
    ClearLayer { l: u8 },
    MergeLayerDown { l: u8 },
    ToggleLayerVisibility { l: u8 },
    AnchorLayer,
    AddFloatingLayer,
    MoveLayer { x: i8, y: i8 },
    SetLayerSize { l: u8, w: u8, h: u8 },
    StampLayerDown,
    RotateLayer,
    MakeLayerTransparent,
    UpdateLayerProperties { l: u8, p: PropsM },
    ResizeBuffer { layers: bool, w: u8, h: u8 },
    Crop,
    CropRect { x: i8, y: i8, w: u8, h: u8 },
    SetSelection { s: SelM },
    ClearSelection,
    Deselect,
    AddSelectionToMask,
    InverseSelection,
    EnumerateSelections { pred: u8 },
    EraseSelection,
    EraseRow,
    EraseRowToStart,
    EraseRowToEnd,
    EraseColumn,
    EraseColumnToStart,
    EraseColumnToEnd,
    FlipX,
    FlipY,
    JustifyLeft,
    JustifyRight,
    Center,
    JustifyLineLeft,
    JustifyLineRight,
    CenterLine,
    InsertRow,
    DeleteRow,
    InsertColumn,
    DeleteColumn,
    ScrollAreaUp,
    ScrollAreaDown,
    ScrollAreaLeft,
    ScrollAreaRight,
    PasteClipboardData { x: i8, y: i8, w: u8, h: u8, cells: Vec<CellM>, tag: u8 },
    CopyPaste,
    PasteSixel { w: u8, h: u8 },
    SetIceMode { m: u8 },
    SetPaletteMode { m: u8 },
    SwitchToPalette { p: PalM },
    UpdateSauceData { s: Option<SauceM> },
    SwitchToFontPage { p: u8 },
    AddAnsiFont { p: u8 },
    SetAnsiFont { p: u8 },
    SetSauceFont { i: u8 },
    AddFont { f: FontM },
    SetFont { f: FontM },
    ReplaceFontUsage { from: u8, to: u8 },
    ChangeFontSlot { from: u8, to: u8 },
    RemoveFont { p: u8 },
    SetCurrentLayer { l: u8 },
    MoveCaret { x: i8, y: i8 },
    SetMirrorMode { on: bool },
    UndoCaretPosition,
    PushReverseUndo { x: i8, y: i8, c: CellM },
    BeginAtomic,
    EndAtomic { explicit: bool },
    /// front-end state changes that register no undo step: dragging the current layer (preview offset) ...
    Drag { x: i8, y: i8 },
    DragCancel,
    /// ... a tool preview in the overlay layer (on = draw a character into it, off = remove the overlay) ...
    Hover { on: bool, x: i8, y: i8, c: CellM },
    /// ... and caret colours / insert mode
    SetCaretState { fg: u8, bg: u8, insert: bool },
    /// What the generators emit instead of StampLayerDown while the finding C08-stamp-layer-down is open: the stored
    /// current-layer index is clamped first and the stamp is left out (nothing happens) exactly when the configuration is in
    /// the finding's failing class (`stamp_known_class`); everything else is stamped. Witness files use plain StampLayerDown.
    StampLayerDownSteered,
}

impl Op {
    pub fn kind(&self) -> String {
        if matches!(self, Op::StampLayerDownSteered) {
            return "StampLayerDown".into(); // same operation, same failure keys
        }
        match serde_json::to_value(self) {
            Ok(serde_json::Value::String(s)) => s,
            Ok(serde_json::Value::Object(m)) => m.keys().next().cloned().unwrap_or_else(|| "?".into()),
            _ => "?".into(),
        }
    }
}

/// what an operation touched (for the non-triviality rule)
#[derive(Clone, Copy, Debug, Default)]
pub struct Touch {
    /// index (at the time of the operation) of the layer the operation worked on
    pub layer: Option<usize>,
    /// edits cells of that layer
    pub cell_edit: bool,
    /// changes the number or the order of layers
    pub reorder: bool,
}

/// cell writer handed to `push_reverse_undo`: the wrapper calls `undo` to apply and `redo` to revert
struct HarnessCell {
    layer: usize,
    pos: Position,
    old: AttributedChar,
    new: AttributedChar,
}

/// write a cell straight into the row storage: the harness operation must be an exact inverse of itself whatever the
/// layer's edit guards (locked, hidden, alpha lock) say
fn raw_set(st: &mut EditState, layer: usize, pos: Position, ch: AttributedChar) -> EngineResult<()> {
    match st.get_buffer_mut().layers.get_mut(layer) {
        Some(l) => {
            if pos.x >= 0 && pos.y >= 0 && pos.x < l.get_width() && pos.y < l.get_height() {
                if l.lines.len() <= pos.y as usize {
                    l.lines.resize(pos.y as usize + 1, icy_engine::Line::new());
                }
                l.lines[pos.y as usize].set_char(pos.x, ch);
            }
            Ok(())
        }
        None => fail("harness cell: no such layer"),
    }
}

impl UndoOperation for HarnessCell {
    fn get_description(&self) -> String {
        "harness cell".into()
    }
    fn undo(&mut self, st: &mut EditState) -> EngineResult<()> {
        raw_set(st, self.layer, self.pos, self.new)
    }
    fn redo(&mut self, st: &mut EditState) -> EngineResult<()> {
        raw_set(st, self.layer, self.pos, self.old)
    }
}

/// an `Err` of the engine's result type (anyhow is not a dependency of the harness: convert from a std error)
fn fail(s: &str) -> EngineResult<()> {
    Err(std::io::Error::other(s.to_string()).into())
}

pub fn clipboard_bytes(x: i32, y: i32, w: u32, h: u32, cells: &[CellM], tag: u8) -> Vec<u8> {
    let mut data = vec![tag];
    data.extend(i32::to_le_bytes(x));
    data.extend(i32::to_le_bytes(y));
    data.extend(u32::to_le_bytes(w));
    data.extend(u32::to_le_bytes(h));
    let n = (w * h) as usize;
    for i in 0..n {
        let c = if cells.is_empty() { CellM::plain(b'p', 7, 0) } else { cells[i % cells.len()].clone() };
        // the wire format carries the character as u16; keep clear of surrogates (the decoder uses from_u32_unchecked)
        let ch = if (0xD800..0xE000).contains(&c.ch) { b'?' as u16 } else { c.ch };
        data.extend(u16::to_le_bytes(ch));
        data.extend(u16::to_le_bytes(c.attr));
        data.extend(u16::to_le_bytes(c.font as u16));
        data.extend(u32::to_le_bytes(c.bg));
        data.extend(u32::to_le_bytes(c.fg));
    }
    data
}

/// The failing class of the open finding C08-stamp-layer-down on the pinned tree: stamp_layer_down snapshots and writes the
/// rectangle `top.rect + base.offset` of the receiving layer (consistent with each other), and UndoLayerChange replaces the
/// receiving layer's rows wholesale when the snapshot has the layer's size, ignoring the snapshot's position. Undo / redo
/// are therefore wrong exactly when both layers have the same size and the snapshot does not start at (0,0), i.e.
/// top.offset + base.offset != (0,0) (offsets as get_offset() reports them, pending preview included).
/// None: there is no layer below the current one.
pub fn stamp_known_class(st: &EditState) -> Option<bool> {
    let cur = st.get_current_layer().ok()?;
    if cur == 0 {
        return None;
    }
    let layers = &st.get_buffer().layers;
    let (top, base) = (&layers[cur], &layers[cur - 1]);
    let start = top.get_offset() + base.get_offset();
    Some(top.get_size() == base.get_size() && start != Position::new(0, 0))
}

#[derive(Default)]
pub struct Interp {
    /// stamps left out by StampLayerDownSteered
    pub skipped_stamps: usize,
    /// ManuallyDrop: AtomicUndoGuard::drop locks the undo stack and panics when the lock is poisoned; if that happened while
    /// another panic unwinds through the harness the process would abort, so guards are only ever dropped explicitly
    pub guards: Vec<std::mem::ManuallyDrop<AtomicUndoGuard>>,
}

impl Interp {
    /// close every open atomic group (innermost first)
    pub fn close_all(&mut self) {
        let mut first_panic = None;
        while let Some(mut g) = self.guards.pop() {
            // each guard on its own: a panicking drop must not take the remaining guards down with it
            let r = std::panic::catch_unwind(std::panic::AssertUnwindSafe(|| unsafe { std::mem::ManuallyDrop::drop(&mut g) }));
            if let Err(e) = r {
                first_panic.get_or_insert(e);
            }
        }
        if let Some(e) = first_panic {
            std::panic::resume_unwind(e);
        }
    }

    /// Run one operation. Never panics itself: the caller wraps it in `guarded`.
    pub fn apply(&mut self, st: &mut EditState, op: &Op) -> (EngineResult<()>, Touch) {
        let n = st.get_buffer().layers.len();
        let cur = st.get_current_layer().ok();
        let on_cur = Touch { layer: cur, cell_edit: true, reorder: false };
        let none = Touch::default();
        let structural = Touch { layer: None, cell_edit: false, reorder: true };
        match op {
            Op::SetChar { x, y, c } => (st.set_char((*x as i32, *y as i32), c.to_char()), on_cur),
            Op::SwapChar { x1, y1, x2, y2 } => (st.swap_char((*x1 as i32, *y1 as i32), (*x2 as i32, *y2 as i32)), on_cur),
            Op::AddNewLayer { l } => (st.add_new_layer(lref(*l, n)), structural),
            Op::RemoveLayer { l } => (st.remove_layer(lref(*l, n)), structural),
            Op::RaiseLayer { l } => (st.raise_layer(lref_in(*l, 0, n.saturating_sub(1), n)), structural),
            Op::LowerLayer { l } => (st.lower_layer(lref_in(*l, 1, n, n)), structural),
            Op::DuplicateLayer { l } => (st.duplicate_layer(lref(*l, n)), structural),
            Op::ClearLayer { l } => (st.clear_layer(lref(*l, n)), Touch { layer: Some(lref(*l, n)), cell_edit: true, reorder: false }),
            Op::MergeLayerDown { l } => (st.merge_layer_down(lref_in(*l, 1, n, n)), Touch { layer: Some(lref_in(*l, 1, n, n).saturating_sub(1)), cell_edit: true, reorder: true }),
            Op::ToggleLayerVisibility { l } => (st.toggle_layer_visibility(lref(*l, n)), Touch { layer: Some(lref(*l, n)), cell_edit: false, reorder: false }),
            Op::AnchorLayer => (st.anchor_layer(), Touch { layer: cur.map(|c| c.saturating_sub(1)), cell_edit: true, reorder: true }),
            Op::AddFloatingLayer => (st.add_floating_layer(), Touch { layer: cur, cell_edit: false, reorder: false }),
            Op::MoveLayer { x, y } => (st.move_layer(Position::new(*x as i32, *y as i32)), Touch { layer: cur, cell_edit: false, reorder: false }),
            Op::SetLayerSize { l, w, h } => (st.set_layer_size(lref(*l, n), (*w as i32, *h as i32)), Touch { layer: Some(lref(*l, n)), cell_edit: false, reorder: false }),
            Op::StampLayerDown => (st.stamp_layer_down(), Touch { layer: cur.map(|c| c.saturating_sub(1)), cell_edit: true, reorder: false }),
            Op::StampLayerDownSteered => {
                if let Some(c) = cur {
                    st.set_current_layer(c); // a stale stored index would make the operation pick another receiving layer
                }
                if stamp_known_class(st) == Some(true) {
                    self.skipped_stamps += 1;
                    (Ok(()), none)
                } else {
                    (st.stamp_layer_down(), Touch { layer: cur.map(|c| c.saturating_sub(1)), cell_edit: true, reorder: false })
                }
            }
            Op::RotateLayer => (st.rotate_layer(), on_cur),
            Op::MakeLayerTransparent => (st.make_layer_transparent(), on_cur),
            Op::UpdateLayerProperties { l, p } => (st.update_layer_properties(lref(*l, n), p.build()), Touch { layer: Some(lref(*l, n)), cell_edit: false, reorder: false }),
            Op::ResizeBuffer { layers, w, h } => (st.resize_buffer(*layers, (*w as i32, *h as i32)), if *layers { structural } else { none }),
            Op::Crop => (st.crop(), structural),
            Op::CropRect { x, y, w, h } => (st.crop_rect(Rectangle::from(*x as i32, *y as i32, *w as i32, *h as i32)), structural),
            Op::SetSelection { s } => (st.set_selection(s.build()), none),
            Op::ClearSelection => (st.clear_selection(), none),
            Op::Deselect => (st.deselect(), none),
            Op::AddSelectionToMask => (st.add_selection_to_mask(), none),
            Op::InverseSelection => (st.inverse_selection(), none),
            Op::EnumerateSelections { pred } => {
                match pred % 5 {
                    0 => st.enumerate_selections(|_, _, sel| Some(!sel)),
                    1 => st.enumerate_selections(|pos, _, _| Some((pos.x + pos.y) % 2 == 0)),
                    2 => st.enumerate_selections(|_, ch, _| Some(ch.is_visible() && !ch.is_transparent())),
                    3 => st.enumerate_selections(|_, _, _| None),
                    _ => st.enumerate_selections(|_, _, _| Some(false)),
                }
                (Ok(()), none)
            }
            Op::EraseSelection => (st.erase_selection(), on_cur),
            Op::EraseRow => (st.erase_row(), on_cur),
            Op::EraseRowToStart => (st.erase_row_to_start(), on_cur),
            Op::EraseRowToEnd => (st.erase_row_to_end(), on_cur),
            Op::EraseColumn => (st.erase_column(), on_cur),
            Op::EraseColumnToStart => (st.erase_column_to_start(), on_cur),
            Op::EraseColumnToEnd => (st.erase_column_to_end(), on_cur),
            Op::FlipX => (st.flip_x(), on_cur),
            Op::FlipY => (st.flip_y(), on_cur),
            Op::JustifyLeft => (st.justify_left(), on_cur),
            Op::JustifyRight => (st.justify_right(), on_cur),
            Op::Center => (st.center(), on_cur),
            Op::JustifyLineLeft => (st.justify_line_left(), on_cur),
            Op::JustifyLineRight => (st.justify_line_right(), on_cur),
            Op::CenterLine => (st.center_line(), on_cur),
            Op::InsertRow => (st.insert_row(), on_cur),
            Op::DeleteRow => (st.delete_row(), on_cur),
            Op::InsertColumn => (st.insert_column(), on_cur),
            Op::DeleteColumn => (st.delete_column(), on_cur),
            Op::ScrollAreaUp => (st.scroll_area_up(), on_cur),
            Op::ScrollAreaDown => (st.scroll_area_down(), on_cur),
            Op::ScrollAreaLeft => (st.scroll_area_left(), on_cur),
            Op::ScrollAreaRight => (st.scroll_area_right(), on_cur),
            Op::PasteClipboardData { x, y, w, h, cells, tag } => {
                let data = clipboard_bytes(*x as i32, *y as i32, *w as u32, *h as u32, cells, *tag);
                (st.paste_clipboard_data(&data), structural)
            }
            Op::CopyPaste => match st.get_clipboard_data() {
                Some(data) => (st.paste_clipboard_data(&data), structural),
                None => (Ok(()), none),
            },
            Op::PasteSixel { w, h } => {
                let (pw, ph) = (*w as usize * 8, *h as usize * 16);
                let sx = Sixel::from_data((pw, ph), 1, 1, vec![0x7f; pw * ph * 4]);
                (st.paste_sixel(sx), structural)
            }
            Op::SetIceMode { m } => (st.set_ice_mode(ice_of(*m)), none),
            Op::SetPaletteMode { m } => (st.set_palette_mode(palmode_of(*m)), none),
            Op::SwitchToPalette { p } => (st.switch_to_palette(p.build()), none),
            Op::UpdateSauceData { s } => {
                let size = st.get_buffer().get_size();
                (st.update_sauce_data(s.as_ref().map(|s| s.build(size))), none)
            }
            Op::SwitchToFontPage { p } => (st.switch_to_font_page(*p as usize), none),
            Op::AddAnsiFont { p } => (st.add_ansi_font(*p as usize), none),
            Op::SetAnsiFont { p } => (st.set_ansi_font(*p as usize), none),
            Op::SetSauceFont { i } => {
                let name = if (*i as usize) < SAUCE_FONT_NAMES.len() { SAUCE_FONT_NAMES[*i as usize] } else { "no such font" };
                (st.set_sauce_font(name), none)
            }
            Op::AddFont { f } => match f.build() {
                Ok(f) => (st.add_font(f), none),
                Err(e) => (Err(e), none),
            },
            Op::SetFont { f } => match f.build() {
                Ok(f) => (st.set_font(f), none),
                Err(e) => (Err(e), none),
            },
            Op::ReplaceFontUsage { from, to } => (st.replace_font_usage(*from as usize, *to as usize), none),
            Op::ChangeFontSlot { from, to } => (st.change_font_slot(*from as usize, *to as usize), none),
            Op::RemoveFont { p } => (st.remove_font(*p as usize), none),
            Op::SetCurrentLayer { l } => {
                st.set_current_layer(lref(*l, n));
                (Ok(()), none)
            }
            Op::MoveCaret { x, y } => {
                st.get_caret_mut().set_position(Position::new(*x as i32, *y as i32));
                (Ok(()), none)
            }
            Op::SetMirrorMode { on } => {
                st.set_mirror_mode(*on);
                (Ok(()), none)
            }
            Op::UndoCaretPosition => (st.undo_caret_position(), none),
            Op::PushReverseUndo { x, y, c } => {
                let Some(layer) = cur else {
                    return (fail("no layer"), none);
                };
                let pos = Position::new(*x as i32, *y as i32);
                let old = st.get_buffer().layers[layer].get_char(pos);
                let inner = HarnessCell { layer, pos, old, new: c.to_char() };
                (st.push_reverse_undo("harness reverse", Box::new(inner), OperationType::Unknown), on_cur)
            }
            Op::Drag { x, y } => {
                if let Some(l) = st.get_cur_layer_mut() {
                    l.set_preview_offset(Some(Position::new(*x as i32, *y as i32)));
                }
                (Ok(()), none)
            }
            Op::DragCancel => {
                if let Some(l) = st.get_cur_layer_mut() {
                    l.set_preview_offset(None);
                }
                (Ok(()), none)
            }
            Op::Hover { on, x, y, c } => {
                if *on {
                    if let Some(o) = st.get_overlay_layer() {
                        o.set_char((*x as i32, *y as i32), c.to_char());
                    }
                } else {
                    st.get_buffer_mut().remove_overlay();
                }
                (Ok(()), none)
            }
            Op::SetCaretState { fg, bg, insert } => {
                st.get_caret_mut().set_attr(icy_engine::TextAttribute::new(*fg as u32, *bg as u32));
                st.get_caret_mut().insert_mode = *insert;
                (Ok(()), none)
            }
            Op::BeginAtomic => {
                if self.guards.len() < 3 {
                    let g = st.begin_atomic_undo("harness group");
                    self.guards.push(std::mem::ManuallyDrop::new(g));
                }
                (Ok(()), none)
            }
            Op::EndAtomic { explicit } => {
                if let Some(mut g) = self.guards.pop() {
                    if *explicit {
                        g.end();
                    }
                    // not reached (and the guard leaked) if end() panicked
                    unsafe { std::mem::ManuallyDrop::drop(&mut g) };
                }
                (Ok(()), none)
            }
        }
    }
}

// ---------------------------------------------------------------------------------------------------------------------
// generators

fn lr() -> BoxedStrategy<u8> {
    prop_oneof![24 => 0u8..240, 1 => 240u8..=242].boxed()
}
fn px() -> BoxedStrategy<i8> {
    prop_oneof![8 => 0i8..=11, 2 => -2i8..=31, 1 => Just(-1i8), 1 => Just(12i8)].boxed()
}
fn py() -> BoxedStrategy<i8> {
    prop_oneof![8 => 0i8..=7, 2 => -2i8..=21, 1 => Just(-1i8), 1 => Just(8i8)].boxed()
}
fn page() -> BoxedStrategy<u8> {
    prop_oneof![3 => Just(0u8), 5 => Just(1u8), 2 => Just(2u8), 1 => Just(3u8), 1 => Just(100u8)].boxed()
}
fn font_m() -> BoxedStrategy<FontM> {
    prop_oneof![3 => (0u8..44).prop_map(FontM::Ansi), 1 => (prop_oneof![Just(8u8), Just(14u8), Just(16u8)], any::<u8>()).prop_map(|(height, seed)| FontM::Custom { height, seed })].boxed()
}
fn props_m() -> BoxedStrategy<PropsM> {
    (
        0u8..4,
        prop::option::weighted(0.2, (any::<u8>(), any::<u8>(), any::<u8>())),
        prop::bool::weighted(0.8),
        prop::bool::weighted(0.25),
        prop::bool::weighted(0.2),
        prop::bool::weighted(0.2),
        any::<bool>(),
        prop_oneof![6 => Just(0u8), 1 => Just(1u8), 1 => Just(2u8)],
        prop_oneof![3 => Just(0i8), 2 => -4i8..=8],
        prop_oneof![3 => Just(0i8), 2 => -3i8..=6],
    )
        .prop_map(|(title, color, visible, locked, pos_locked, alpha_locked, alpha, mode, ox, oy)| PropsM { title, color, visible, locked, pos_locked, alpha_locked, alpha, mode, ox, oy })
        .boxed()
}

/// (weight, kind, strategy) for every kind of the alphabet
/// `flip_w`: weight of FlipX / FlipY (each call rebuilds the glyph flip tables of every font: 25-90 ms)
pub fn alphabet(flip_w: u32) -> Vec<(u32, &'static str, BoxedStrategy<Op>)> {
    let j = |o: Op| Just(o).boxed();
    let dim = || prop_oneof![10 => 1u8..=34, 1 => Just(0u8)];
    let dimh = || prop_oneof![10 => 1u8..=24, 1 => Just(0u8)];
    vec![
        (14, "SetChar", (px(), py(), cell_strategy()).prop_map(|(x, y, c)| Op::SetChar { x, y, c }).boxed()),
        (5, "SwapChar", (px(), py(), px(), py()).prop_map(|(x1, y1, x2, y2)| Op::SwapChar { x1, y1, x2, y2 }).boxed()),
        (3, "AddNewLayer", lr().prop_map(|l| Op::AddNewLayer { l }).boxed()),
        (3, "RemoveLayer", lr().prop_map(|l| Op::RemoveLayer { l }).boxed()),
        (3, "RaiseLayer", lr().prop_map(|l| Op::RaiseLayer { l }).boxed()),
        (3, "LowerLayer", lr().prop_map(|l| Op::LowerLayer { l }).boxed()),
        (3, "DuplicateLayer", lr().prop_map(|l| Op::DuplicateLayer { l }).boxed()),
        (3, "ClearLayer", lr().prop_map(|l| Op::ClearLayer { l }).boxed()),
        (3, "MergeLayerDown", lr().prop_map(|l| Op::MergeLayerDown { l }).boxed()),
        (3, "ToggleLayerVisibility", lr().prop_map(|l| Op::ToggleLayerVisibility { l }).boxed()),
        (2, "AnchorLayer", j(Op::AnchorLayer)),
        (2, "AddFloatingLayer", j(Op::AddFloatingLayer)),
        (4, "MoveLayer", (-6i8..=14, -5i8..=10).prop_map(|(x, y)| Op::MoveLayer { x, y }).boxed()),
        (4, "SetLayerSize", (lr(), dim(), dimh()).prop_map(|(l, w, h)| Op::SetLayerSize { l, w, h }).boxed()),
        (3, "StampLayerDown", j(Op::StampLayerDown)),
        (3, "RotateLayer", j(Op::RotateLayer)),
        (3, "MakeLayerTransparent", j(Op::MakeLayerTransparent)),
        (3, "UpdateLayerProperties", (lr(), props_m()).prop_map(|(l, p)| Op::UpdateLayerProperties { l, p }).boxed()),
        (4, "ResizeBuffer", (any::<bool>(), dim(), dimh()).prop_map(|(layers, w, h)| Op::ResizeBuffer { layers, w, h }).boxed()),
        (2, "Crop", j(Op::Crop)),
        (2, "CropRect", (-2i8..=12, -2i8..=8, dim(), dimh()).prop_map(|(x, y, w, h)| Op::CropRect { x, y, w, h }).boxed()),
        (6, "SetSelection", sel_strategy().prop_map(|s| Op::SetSelection { s }).boxed()),
        (2, "ClearSelection", j(Op::ClearSelection)),
        (2, "Deselect", j(Op::Deselect)),
        (2, "AddSelectionToMask", j(Op::AddSelectionToMask)),
        (2, "InverseSelection", j(Op::InverseSelection)),
        (2, "EnumerateSelections", (0u8..5).prop_map(|pred| Op::EnumerateSelections { pred }).boxed()),
        (3, "EraseSelection", j(Op::EraseSelection)),
        (2, "EraseRow", j(Op::EraseRow)),
        (1, "EraseRowToStart", j(Op::EraseRowToStart)),
        (1, "EraseRowToEnd", j(Op::EraseRowToEnd)),
        (2, "EraseColumn", j(Op::EraseColumn)),
        (1, "EraseColumnToStart", j(Op::EraseColumnToStart)),
        (1, "EraseColumnToEnd", j(Op::EraseColumnToEnd)),
        (flip_w, "FlipX", j(Op::FlipX)),
        (flip_w, "FlipY", j(Op::FlipY)),
        (3, "JustifyLeft", j(Op::JustifyLeft)),
        (3, "JustifyRight", j(Op::JustifyRight)),
        (3, "Center", j(Op::Center)),
        (2, "JustifyLineLeft", j(Op::JustifyLineLeft)),
        (2, "JustifyLineRight", j(Op::JustifyLineRight)),
        (2, "CenterLine", j(Op::CenterLine)),
        (3, "InsertRow", j(Op::InsertRow)),
        (3, "DeleteRow", j(Op::DeleteRow)),
        (3, "InsertColumn", j(Op::InsertColumn)),
        (3, "DeleteColumn", j(Op::DeleteColumn)),
        (3, "ScrollAreaUp", j(Op::ScrollAreaUp)),
        (3, "ScrollAreaDown", j(Op::ScrollAreaDown)),
        (3, "ScrollAreaLeft", j(Op::ScrollAreaLeft)),
        (3, "ScrollAreaRight", j(Op::ScrollAreaRight)),
        (
            4,
            "PasteClipboardData",
            (-3i8..=14, -3i8..=10, prop_oneof![8 => 1u8..=6, 1 => Just(0u8)], prop_oneof![8 => 1u8..=4, 1 => Just(0u8)], prop::collection::vec(cell_strategy(), 0..=4), prop_oneof![12 => Just(0u8), 1 => Just(1u8)])
                .prop_map(|(x, y, w, h, cells, tag)| Op::PasteClipboardData { x, y, w, h, cells, tag })
                .boxed(),
        ),
        (2, "CopyPaste", j(Op::CopyPaste)),
        (1, "PasteSixel", (1u8..=3, 1u8..=2).prop_map(|(w, h)| Op::PasteSixel { w, h }).boxed()),
        (3, "SetIceMode", (0u8..3).prop_map(|m| Op::SetIceMode { m }).boxed()),
        (2, "SetPaletteMode", (0u8..4).prop_map(|m| Op::SetPaletteMode { m }).boxed()),
        (2, "SwitchToPalette", pal_strategy().prop_map(|p| Op::SwitchToPalette { p }).boxed()),
        (2, "UpdateSauceData", prop::option::weighted(0.8, sauce_strategy()).prop_map(|s| Op::UpdateSauceData { s }).boxed()),
        (2, "SwitchToFontPage", page().prop_map(|p| Op::SwitchToFontPage { p }).boxed()),
        (2, "AddAnsiFont", (0u8..44).prop_map(|p| Op::AddAnsiFont { p }).boxed()),
        (2, "SetAnsiFont", (0u8..44).prop_map(|p| Op::SetAnsiFont { p }).boxed()),
        (2, "SetSauceFont", (0u8..12).prop_map(|i| Op::SetSauceFont { i }).boxed()),
        (2, "AddFont", font_m().prop_map(|f| Op::AddFont { f }).boxed()),
        (2, "SetFont", font_m().prop_map(|f| Op::SetFont { f }).boxed()),
        (2, "ReplaceFontUsage", (page(), page()).prop_map(|(from, to)| Op::ReplaceFontUsage { from, to }).boxed()),
        (2, "ChangeFontSlot", (page(), page()).prop_map(|(from, to)| Op::ChangeFontSlot { from, to }).boxed()),
        (1, "RemoveFont", page().prop_map(|p| Op::RemoveFont { p }).boxed()),
        (6, "SetCurrentLayer", lr().prop_map(|l| Op::SetCurrentLayer { l }).boxed()),
        (6, "MoveCaret", (px(), py()).prop_map(|(x, y)| Op::MoveCaret { x, y }).boxed()),
        (1, "SetMirrorMode", any::<bool>().prop_map(|on| Op::SetMirrorMode { on }).boxed()),
        (1, "UndoCaretPosition", j(Op::UndoCaretPosition)),
        (2, "PushReverseUndo", (px(), py(), cell_strategy()).prop_map(|(x, y, c)| Op::PushReverseUndo { x, y, c }).boxed()),
        (3, "BeginAtomic", j(Op::BeginAtomic)),
        (3, "EndAtomic", any::<bool>().prop_map(|explicit| Op::EndAtomic { explicit }).boxed()),
        (5, "Drag", (-4i8..=12, -3i8..=8).prop_map(|(x, y)| Op::Drag { x, y }).boxed()),
        (1, "DragCancel", j(Op::DragCancel)),
        (2, "Hover", (any::<bool>(), px(), py(), cell_strategy()).prop_map(|(on, x, y, c)| Op::Hover { on, x, y, c }).boxed()),
        (1, "SetCaretState", (0u8..16, 0u8..16, any::<bool>()).prop_map(|(fg, bg, insert)| Op::SetCaretState { fg, bg, insert }).boxed()),
    ]
}

pub fn op_strategy(avoid: &[String], flip_w: u32) -> BoxedStrategy<Op> {
    let parts: Vec<(u32, BoxedStrategy<Op>)> = alphabet(flip_w).into_iter().filter(|(w, k, _)| *w > 0 && !avoid.iter().any(|a| a == k)).map(|(w, _, s)| (w, s)).collect();
    proptest::strategy::Union::new_weighted(parts).boxed()
}

pub fn history_strategy(avoid: &[String], flip_w: u32) -> BoxedStrategy<Vec<Op>> {
    if flip_w > 0 {
        return prop::collection::vec(op_strategy(avoid, flip_w), 1..=6).boxed();
    }
    prop_oneof![
        6 => prop::collection::vec(op_strategy(avoid, flip_w), 1..=6),
        3 => prop::collection::vec(op_strategy(avoid, flip_w), 4..=14),
        1 => prop::collection::vec(op_strategy(avoid, flip_w), 10..=40),
    ]
    .boxed()
}

/// The reduced alphabet of the exhaustive part: concrete operations, at least one per kind.
pub fn reduced_alphabet() -> Vec<Op> {
    let c1 = CellM::plain(b'Q', 11, 4);
    let c2 = CellM { ch: 32, attr: 0x8000, fg: 7, bg: 0, font: 0 };
    let props = PropsM { title: 1, color: None, visible: true, locked: false, pos_locked: false, alpha_locked: false, alpha: true, mode: 0, ox: 1, oy: 1 };
    let locked = PropsM { locked: true, ..props.clone() };
    vec![
        Op::SetChar { x: 1, y: 1, c: c1.clone() },
        Op::SetChar { x: 0, y: 0, c: c2.clone() },
        Op::SetChar { x: 13, y: 3, c: c1.clone() },
        Op::SwapChar { x1: 0, y1: 0, x2: 2, y2: 1 },
        Op::SwapChar { x1: 1, y1: 1, x2: -1, y2: 0 },
        Op::AddNewLayer { l: 0 },
        Op::AddNewLayer { l: 239 },
        Op::RemoveLayer { l: 0 },
        Op::RemoveLayer { l: 239 },
        Op::RaiseLayer { l: 0 },
        Op::LowerLayer { l: 239 },
        Op::DuplicateLayer { l: 0 },
        Op::DuplicateLayer { l: 239 },
        Op::ClearLayer { l: 0 },
        Op::ClearLayer { l: 239 },
        Op::MergeLayerDown { l: 239 },
        Op::ToggleLayerVisibility { l: 0 },
        Op::ToggleLayerVisibility { l: 239 },
        Op::AnchorLayer,
        Op::AddFloatingLayer,
        Op::MoveLayer { x: 3, y: 2 },
        Op::MoveLayer { x: -2, y: -1 },
        Op::SetLayerSize { l: 0, w: 5, h: 3 },
        Op::SetLayerSize { l: 239, w: 20, h: 12 },
        Op::StampLayerDown,
        Op::RotateLayer,
        Op::MakeLayerTransparent,
        Op::UpdateLayerProperties { l: 0, p: props },
        Op::UpdateLayerProperties { l: 239, p: locked },
        Op::ResizeBuffer { layers: false, w: 8, h: 5 },
        Op::ResizeBuffer { layers: true, w: 8, h: 5 },
        Op::ResizeBuffer { layers: true, w: 20, h: 12 },
        Op::Crop,
        Op::CropRect { x: 1, y: 1, w: 6, h: 4 },
        Op::SetSelection { s: SelM { ax: 0, ay: 0, lx: 4, ly: 3, rect: true, add: 0, locked: false } },
        Op::SetSelection { s: SelM { ax: 3, ay: 2, lx: 9, ly: 6, rect: true, add: 2, locked: false } },
        Op::SetSelection { s: SelM { ax: 2, ay: 1, lx: 1, ly: 3, rect: false, add: 1, locked: false } },
        Op::ClearSelection,
        Op::Deselect,
        Op::AddSelectionToMask,
        Op::InverseSelection,
        Op::EnumerateSelections { pred: 1 },
        Op::EraseSelection,
        Op::EraseRow,
        Op::EraseRowToStart,
        Op::EraseRowToEnd,
        Op::EraseColumn,
        Op::EraseColumnToStart,
        Op::EraseColumnToEnd,
        Op::FlipX,
        Op::FlipY,
        Op::JustifyLeft,
        Op::JustifyRight,
        Op::Center,
        Op::JustifyLineLeft,
        Op::JustifyLineRight,
        Op::CenterLine,
        Op::InsertRow,
        Op::DeleteRow,
        Op::InsertColumn,
        Op::DeleteColumn,
        Op::ScrollAreaUp,
        Op::ScrollAreaDown,
        Op::ScrollAreaLeft,
        Op::ScrollAreaRight,
        Op::PasteClipboardData { x: 1, y: 1, w: 3, h: 2, cells: vec![c1.clone(), c2.clone()], tag: 0 },
        Op::CopyPaste,
        Op::PasteSixel { w: 1, h: 1 },
        Op::SetIceMode { m: 1 },
        Op::SetIceMode { m: 2 },
        Op::SetPaletteMode { m: 2 },
        Op::SetPaletteMode { m: 0 },
        Op::SwitchToPalette { p: PalM::Custom(vec![(1, 2, 3), (200, 100, 50)]) },
        Op::UpdateSauceData { s: Some(SauceM { title: "x".into(), author: "".into(), group: "".into(), comments: vec![], use_ice: true, letter_spacing: false, aspect_ratio: false, font: None }) },
        Op::UpdateSauceData { s: None },
        Op::SwitchToFontPage { p: 1 },
        Op::AddAnsiFont { p: 3 },
        Op::SetAnsiFont { p: 4 },
        Op::SetSauceFont { i: 1 },
        Op::AddFont { f: FontM::Custom { height: 16, seed: 3 } },
        Op::SetFont { f: FontM::Ansi(2) },
        Op::ReplaceFontUsage { from: 0, to: 1 },
        Op::ChangeFontSlot { from: 1, to: 2 },
        Op::RemoveFont { p: 1 },
        Op::SetCurrentLayer { l: 0 },
        Op::SetCurrentLayer { l: 239 },
        Op::MoveCaret { x: 0, y: 0 },
        Op::MoveCaret { x: 4, y: 3 },
        Op::SetMirrorMode { on: true },
        Op::UndoCaretPosition,
        Op::PushReverseUndo { x: 2, y: 2, c: c1 },
        Op::BeginAtomic,
        Op::EndAtomic { explicit: false },
        Op::Drag { x: 4, y: 3 },
        Op::DragCancel,
        Op::Hover { on: true, x: 1, y: 1, c: CellM::plain(b'o', 14, 0) },
    ]
}
