//! C11 — SAUCE metadata round-trips and is cut off the content exactly.
//!
//! Parts
//!  * `meta_roundtrip`  clause 1: model -> Buffer + set_sauce -> writer (save_sauce) -> Buffer::from_bytes -> get_sauce()
//!                      must equal what the SAUCE variant of that writer can carry (SAUCE rev. 5 FileType table).
//!  * `writer_split`    clause 2+3 on files written by the engine: the file is `content ++ EOF ++ [COMNT] ++ record`
//!                      (reference decoder written from the SAUCE document), SauceData::extract reports exactly that
//!                      trailer length, and with default width/ice/font the picture equals the one of the content alone.
//!  * `reader_split`    clause 2+3 on trailers produced by the reference *encoder* of this file (never the engine's) appended
//!                      to generated content whose own last bytes look like SAUCE / COMNT / EOF / whole fake records.
//!  * `degenerate`      exhaustive: every comment count 0..=255 on contents of 0,1,2 bytes, plus the files that are nothing
//!                      but a record (and comment block) without EOF byte.
use icy_engine::ascii::CP437_TO_UNICODE;
use icy_engine::{AttributedChar, BitFont, Buffer, BufferType, IceMode, SauceData, SauceString, SaveOptions, Size, TextAttribute, TextPane, FORMATS, SAUCE_FONT_NAMES};
use icyv::proptest::collection::vec;
use icyv::proptest::prelude::*;
use icyv::util::{escape, pick, Bytes};
use icyv::{Engine, PartCfg, Verdict};
use serde::{Deserialize, Serialize};
use std::collections::HashMap;
use std::path::Path;
use std::sync::OnceLock;

// ---------------------------------------------------------------------------------------------------------------
// formats

const FMTS: [&str; 10] = ["ans", "asc", "avt", "pcb", "bin", "xb", "tnd", "adf", "idf", "icy"];
const ANS: u8 = 0;
const ASC: u8 = 1;
const AVT: u8 = 2;
const PCB: u8 = 3;
const BIN: u8 = 4;
const XB: u8 = 5;
const TND: u8 = 6;
const ADF: u8 = 7;
const IDF: u8 = 8;
const ICY: u8 = 9;

fn ext(fmt: u8) -> &'static str {
    FMTS[fmt as usize]
}

/// What the SAUCE variant written for this format can carry besides title/author/group/comments/width
/// (SAUCE rev. 5, FileType table: ASCII, ANSi, BinaryText carry ANSiFlags + FontName; PCBoard, Avatar, TundraDraw, XBin carry neither).
/// ans -> Character/ANSi, asc -> Character/ASCII, adf and icy -> Character/ANSi, bin and idf -> BinaryText.
fn carries_flags_and_font(fmt: u8) -> bool {
    matches!(fmt, ANS | ASC | BIN | ADF | IDF | ICY)
}

/// BinaryText stores width/2 in the FileType byte: only even widths up to 510.
fn carried_width(fmt: u8, w: i32) -> i32 {
    if fmt == BIN || fmt == IDF {
        (w / 2) * 2
    } else {
        w
    }
}

/// the width a loader uses when the file has no SAUCE
fn default_width(fmt: u8) -> i32 {
    if fmt == BIN {
        160
    } else {
        80
    }
}

// ---------------------------------------------------------------------------------------------------------------
// CP437 <-> String (the engine's SauceString can only be built from a String)

fn to_uni(b: &[u8]) -> String {
    b.iter().map(|x| CP437_TO_UNICODE[*x as usize]).collect()
}

fn rev_table() -> &'static HashMap<char, u8> {
    static T: OnceLock<HashMap<char, u8>> = OnceLock::new();
    T.get_or_init(|| {
        let mut m = HashMap::new();
        for (i, c) in CP437_TO_UNICODE.iter().enumerate() {
            m.entry(*c).or_insert(i as u8);
        }
        m
    })
}

fn from_uni(s: &str) -> Option<Vec<u8>> {
    s.chars().map(|c| rev_table().get(&c).copied()).collect()
}

/// SAUCE padding: trailing blanks and NULs do not belong to the value
fn strip(b: &[u8]) -> &[u8] {
    let mut n = b.len();
    while n > 0 && (b[n - 1] == b' ' || b[n - 1] == 0) {
        n -= 1;
    }
    &b[..n]
}

/// value of a ZString / NUL-terminated comment line: up to the first NUL, then pad-stripped
fn zvalue(b: &[u8]) -> &[u8] {
    let n = b.iter().position(|x| *x == 0).unwrap_or(b.len());
    strip(&b[..n])
}

// ---------------------------------------------------------------------------------------------------------------
// models

#[derive(Clone, Debug, Default, Hash, Serialize, Deserialize)]
struct Meta {
    title: Bytes,
    author: Bytes,
    group: Bytes,
    comments: Vec<Bytes>,
    ice: bool,
    letter_spacing: bool,
    aspect_ratio: bool,
    /// name of font 0 as CP437 bytes; empty = leave the buffer's own default font ("Codepage 437 English")
    font: Bytes,
    width: u16,
}

#[derive(Clone, Debug, Hash, Serialize, Deserialize)]
struct Cell {
    /// column selector (monotone map onto 0..width)
    x: u16,
    y: u8,
    ch: u8,
    fg: u8,
    bg: u8,
}

/// a document to be saved with SAUCE by one of the engine's writers
#[derive(Clone, Debug, Hash, Serialize, Deserialize)]
struct WCase {
    fmt: u8,
    meta: Meta,
    height: u16,
    cells: Vec<Cell>,
    /// what happened to the buffer before the save under test:
    /// 0 = freshly built, record set once;
    /// 1 = a document with the metadata `prev` was saved with SAUCE and loaded again, then edited to the state `meta` (size, ice mode, font 0, content; the
    ///     loaded record is kept and only its texts / comment lines / LS / AR are updated, as an editor does);
    /// 2 = `set_sauce(record of prev, resize = true)` on a new buffer, then the same edits.
    /// The expectation never changes: what is loaded back is what the buffer says at save time.
    #[serde(default)]
    history: u8,
    #[serde(default)]
    prev: Option<Meta>,
    /// the state of the document around the metadata (the flags and texts the user set have to come back whatever it is)
    #[serde(default)]
    doc: Doc,
    /// name under which the saved file is loaded again
    #[serde(default)]
    name: NameSel,
}

#[derive(Clone, Debug, Default, PartialEq, Hash, Serialize, Deserialize)]
struct Doc {
    /// font in slot 0: 0 = the buffer's own default (8x16 CP437), 1 = built-in ANSI font page `font_page` (8x8, 8x14, 8x16),
    /// 2 = the built-in 6x16 Viewdata font, 3 = a custom font of `font_w` x `font_h` pixels; `meta.font`, when not empty, renames it
    font_shape: u8,
    font_page: u8,
    font_w: u8,
    font_h: u8,
    /// 0 CP437, 1 Unicode, 2 Petscii, 3 Atascii, 4 Viewdata
    buffer_type: u8,
}

/// content (not produced with SAUCE) + a SAUCE trailer described by the model, encoded by the reference encoder below
#[derive(Clone, Debug, Hash, Serialize, Deserialize)]
struct RCase {
    fmt: u8,
    /// stream formats and bin: the content bytes themselves (body + marker-like tail)
    content: Bytes,
    /// 0 none, 1 "SAUCE", 2 "COMNT", 3 EOF, 4 "SAUCE00", 5 whole fake record, 6 fake comment block, 7 fake EOF+COMNT+record,
    /// 8 EOF EOF, 9 fake record cut by one byte  (already appended to `content`; kept for the class histogram)
    tail: u8,
    /// xb/tnd/adf/idf: content = engine writer (without SAUCE) applied to these cells
    cells: Vec<Cell>,
    height: u8,
    title: Bytes,
    author: Bytes,
    group: Bytes,
    comments: Vec<Bytes>,
    /// pad byte of comment lines: true = NUL (what the engine writes), false = blank (what the document asks for)
    comment_pad_nul: bool,
    /// ANSiFlags LS / AR fields 0..=2 (never ice: the differential clause is about default ice)
    ls: u8,
    ar: u8,
    /// TInfo2: 0 -> 0, 1 -> true number of lines, 2 -> 25, 3 -> `lines_val`
    lines_sel: u8,
    lines_val: u16,
    /// TInfo1: 0 -> the loader's default width, 1 -> 0 ("not given"), 2 -> `big_width` (>1000: the loader deliberately uses 80)
    width_sel: u8,
    big_width: u16,
    /// TInfoS: false -> zeroes, true -> "IBM VGA" (the SAUCE name of the default font)
    font_ibm_vga: bool,
    /// ans only: Character/ANSiMation instead of Character/ANSi
    ansimation: bool,
    /// the fields of the record that carry nothing the property lists: whatever they contain, the trailer is cut off exactly
    #[serde(default)]
    free: Free,
    /// name under which both the content alone and content+EOF+SAUCE are loaded
    #[serde(default)]
    name: NameSel,
}

#[derive(Clone, Debug, Default, PartialEq, Hash, Serialize, Deserialize)]
struct Free {
    /// FileSize: 0 -> content length (the document's value), 1 -> 0, 2 -> 1, 3 -> content length - 1, 4 -> content length + 1,
    /// 5 -> content length + 2 (the EOF byte counted twice), 6 -> 0xFFFF_FFFF, 7 -> `size_val`
    size_sel: u8,
    size_val: u32,
    /// Date: 0 -> "20130504", 1 -> blanks (the document: "not used"), 2 -> "00000000", 3 -> "19941332", 4 -> NULs, 5 -> `date_raw`
    date_sel: u8,
    date_raw: Bytes,
    tinfo3: u16,
    tinfo4: u16,
    /// TFlags bits 5..=7 (reserved); for variants without ANSiFlags the low bits come from `flags_lo`
    flags_hi: u8,
    flags_lo: u8,
    /// bytes behind the NUL terminator of TInfoS; for variants without FontName the whole field
    tinfos_junk: Bytes,
    /// 0 = the natural DataType/FileType of the format; 1 = DataType `data_type` / FileType `file_type` (any value)
    odd_type: u8,
    data_type: u8,
    file_type: u8,
}

// ---------------------------------------------------------------------------------------------------------------
// reference encoder / decoder, written from "SAUCE – Standard Architecture for Universal Comment Extensions, rev. 5"
//   record (128): ID 5 "SAUCE" | Version 2 "00" | Title 35 | Author 20 | Group 20 | Date 8 | FileSize u32le | DataType u8 | FileType u8 |
//                 TInfo1..4 u16le | Comments u8 | TFlags u8 | TInfoS 22 (ZString, zero filled)
//   file: content | EOF 0x1A | [ "COMNT" | Comments x 64 ] | record        Character fields are blank padded.

struct RefRecord {
    title: Vec<u8>,
    author: Vec<u8>,
    group: Vec<u8>,
    date: [u8; 8],
    file_size: u32,
    data_type: u8,
    file_type: u8,
    tinfo: [u16; 4],
    comments: Vec<Vec<u8>>,
    tflags: u8,
    tinfos: Vec<u8>,
}

fn put_padded(out: &mut Vec<u8>, v: &[u8], len: usize, pad: u8) {
    let n = v.len().min(len);
    out.extend_from_slice(&v[..n]);
    out.resize(out.len() + (len - n), pad);
}

/// EOF + optional comment block + record
fn ref_encode_trailer(r: &RefRecord, comment_pad: u8) -> Vec<u8> {
    let mut out = vec![0x1A];
    if !r.comments.is_empty() {
        out.extend_from_slice(b"COMNT");
        for c in &r.comments {
            put_padded(&mut out, c, 64, comment_pad);
        }
    }
    ref_encode_record(r, &mut out);
    out
}

fn ref_encode_record(r: &RefRecord, out: &mut Vec<u8>) {
    let start = out.len();
    out.extend_from_slice(b"SAUCE00");
    put_padded(out, &r.title, 35, b' ');
    put_padded(out, &r.author, 20, b' ');
    put_padded(out, &r.group, 20, b' ');
    out.extend_from_slice(&r.date);
    out.extend_from_slice(&r.file_size.to_le_bytes());
    out.push(r.data_type);
    out.push(r.file_type);
    for t in r.tinfo {
        out.extend_from_slice(&t.to_le_bytes());
    }
    out.push(r.comments.len() as u8);
    out.push(r.tflags);
    put_padded(out, &r.tinfos, 22, 0);
    debug_assert_eq!(out.len() - start, 128);
}

struct RefParsed {
    /// number of bytes in front of the EOF byte
    content_len: usize,
    title: Vec<u8>,
    author: Vec<u8>,
    group: Vec<u8>,
    data_type: u8,
    file_type: u8,
    tinfo1: u16,
    tflags: u8,
    tinfos: Vec<u8>,
    comments: Vec<Vec<u8>>,
}

/// decode `file` as content+EOF+[COMNT]+record; Err(piece) names the first piece that is not where the document puts it
fn ref_decode(file: &[u8]) -> Result<RefParsed, &'static str> {
    if file.len() < 129 {
        return Err("too_short");
    }
    let r = &file[file.len() - 128..];
    if &r[0..5] != b"SAUCE" {
        return Err("id");
    }
    if &r[5..7] != b"00" {
        return Err("version");
    }
    let n = r[104] as usize;
    let mut start = file.len() - 128;
    let mut comments = Vec::new();
    if n > 0 {
        if start < 5 + 64 * n {
            return Err("comment_block_missing");
        }
        start -= 5 + 64 * n;
        if &file[start..start + 5] != b"COMNT" {
            return Err("comment_id");
        }
        for i in 0..n {
            comments.push(file[start + 5 + 64 * i..start + 5 + 64 * (i + 1)].to_vec());
        }
    }
    if start == 0 || file[start - 1] != 0x1A {
        return Err("eof_byte");
    }
    Ok(RefParsed {
        content_len: start - 1,
        title: r[7..42].to_vec(),
        author: r[42..62].to_vec(),
        group: r[62..82].to_vec(),
        data_type: r[94],
        file_type: r[95],
        tinfo1: u16::from_le_bytes([r[96], r[97]]),
        tflags: r[105],
        tinfos: r[106..128].to_vec(),
        comments,
    })
}

/// length of EOF + comment block + record for n comment lines
fn ref_trailer_len(n: usize) -> usize {
    1 + if n > 0 { 5 + 64 * n } else { 0 } + 128
}

// ---------------------------------------------------------------------------------------------------------------
// building engine objects from the models

fn font_name(meta_font: &[u8]) -> Option<String> {
    if meta_font.is_empty() {
        None
    } else {
        Some(to_uni(meta_font))
    }
}

fn sauce_of(m: &Meta, height: i32) -> SauceData {
    let mut s = SauceData::default();
    s.title = SauceString::from(to_uni(&m.title));
    s.author = SauceString::from(to_uni(&m.author));
    s.group = SauceString::from(to_uni(&m.group));
    s.comments = m.comments.iter().map(|c| SauceString::from(to_uni(c))).collect();
    s.use_ice = m.ice;
    s.use_letter_spacing = m.letter_spacing;
    s.use_aspect_ratio = m.aspect_ratio;
    s.buffer_size = Size::new(m.width as i32, height);
    s.font_opt = font_name(&m.font);
    s
}

fn put_cells(buf: &mut Buffer, cells: &[Cell], width: i32, height: i32) {
    let ice = buf.ice_mode;
    for c in cells {
        let x = pick(c.x, width as usize) as i32;
        let y = (c.y as i32).min(height - 1);
        let attr = TextAttribute::from_u8((c.fg & 15) | ((c.bg & 7) << 4), ice);
        buf.layers[0].set_char((x, y), AttributedChar::new(c.ch as char, attr));
    }
}

fn base_font(doc: &Doc) -> BitFont {
    match doc.font_shape {
        1 => BitFont::from_ansi_font_page(doc.font_page as usize).unwrap_or_default(),
        2 => BitFont::from_bytes("Viewdata", icy_engine::VIEWDATA).unwrap_or_default(),
        3 => {
            let (w, h) = (doc.font_w.clamp(4, 16), doc.font_h.clamp(1, 32));
            // every glyph a different bit pattern
            let data: Vec<u8> = (0..256usize * h as usize).map(|i| (i / h as usize) as u8 ^ (i as u8).rotate_left(3)).collect();
            BitFont::create_8(format!("custom {w}x{h}"), w, h, &data)
        }
        _ => BitFont::default(),
    }
}

fn set_font0(buf: &mut Buffer, font: &[u8], doc: &Doc) {
    let mut f = base_font(doc);
    if let Some(name) = font_name(font) {
        f.name = name;
    }
    buf.set_font(0, f);
}

/// what the 22 byte FontName field can carry of the name of font 0: its first 22 characters in CP437 ('?' for anything else)
fn carried_font_name(buf: &Buffer) -> Vec<u8> {
    let name = buf.get_font(0).map(|f| f.name.clone()).unwrap_or_default();
    name.chars().take(22).map(|c| rev_table().get(&c).copied().unwrap_or(b'?')).collect()
}

fn fresh(m: &Meta, doc: &Doc, h: i32, cells: &[Cell]) -> Buffer {
    let w = m.width as i32;
    let mut buf = Buffer::new((w, h));
    buf.ice_mode = if m.ice { IceMode::Ice } else { IceMode::Blink };
    buf.buffer_type = match doc.buffer_type {
        1 => BufferType::Unicode,
        2 => BufferType::Petscii,
        3 => BufferType::Atascii,
        4 => BufferType::Viewdata,
        _ => BufferType::CP437,
    };
    if !m.font.is_empty() || doc.font_shape != 0 {
        set_font0(&mut buf, &m.font, doc);
    }
    put_cells(&mut buf, cells, w, h);
    buf
}

/// Err = the first save/load cycle of history 1 did not work (counted as discard; the cycle itself is the subject of history 0 cases)
fn build(c: &WCase, with_sauce: bool) -> Result<Buffer, String> {
    let (w, h) = (c.meta.width as i32, c.height as i32);
    let prev = match (&c.prev, c.history) {
        (Some(p), 1 | 2) if with_sauce => p,
        _ => {
            let mut buf = fresh(&c.meta, &c.doc, h, &c.cells);
            if with_sauce {
                buf.set_sauce(Some(sauce_of(&c.meta, h)), false);
            }
            return Ok(buf);
        }
    };
    let mut buf = if c.history == 1 {
        let mut first = fresh(prev, &Doc::default(), 1, &[]);
        first.set_sauce(Some(sauce_of(prev, 1)), false);
        let bytes = first.to_bytes(ext(c.fmt), &save_opts(true)).map_err(|e| format!("first cycle, save: {e}"))?;
        Buffer::from_bytes(&file_name(c.fmt), false, &bytes).map_err(|e| format!("first cycle, load: {e}"))?
    } else {
        let mut b = Buffer::new((80, 25));
        b.set_sauce(Some(sauce_of(prev, 25)), true);
        b
    };
    if buf.layers.is_empty() {
        return Err("first cycle left no layer".into());
    }
    // the edit session: size, ice mode, font 0 and content are replaced ...
    buf.set_size((w, h));
    buf.layers[0].set_size((w, h));
    buf.layers[0].lines.clear();
    buf.ice_mode = if c.meta.ice { IceMode::Ice } else { IceMode::Blink };
    set_font0(&mut buf, &c.meta.font, &c.doc);
    put_cells(&mut buf, &c.cells, w, h);
    // ... and the record the buffer carries is brought up to date where only the record holds the value (its font_opt / use_ice stay as they were loaded)
    let cur = sauce_of(&c.meta, h);
    let mut rec = buf.get_sauce().clone().unwrap_or_default();
    rec.title = cur.title;
    rec.author = cur.author;
    rec.group = cur.group;
    rec.comments = cur.comments;
    rec.use_letter_spacing = cur.use_letter_spacing;
    rec.use_aspect_ratio = cur.use_aspect_ratio;
    buf.set_sauce(Some(rec), false);
    Ok(buf)
}

fn save_opts(sauce: bool) -> SaveOptions {
    let mut o = SaveOptions::new();
    o.save_sauce = sauce;
    o
}

fn file_name(fmt: u8) -> std::path::PathBuf {
    Path::new("c11").with_extension(ext(fmt))
}

/// The file name is an input of Buffer::from_bytes (it selects the loader).
/// kind: 0 "c11.ext", 1 upper case extension, 2 mixed case extension, 3 alternative extension number `k` of the format (the engine's list; none -> kind 0),
/// 4 an extension no format registers (`k` picks it), 5 no extension at all ("c11"), 6 no stem (".ext": that is a hidden file without extension),
/// 7 "pic.ext.bak" (the extension is bak), 8 "pic.bak.ext", 9 "dir.xb/pic.ext" (a directory that looks like another format)
#[derive(Clone, Debug, Default, PartialEq, Hash, Serialize, Deserialize)]
struct NameSel {
    kind: u8,
    k: u8,
}

const UNKNOWN_EXTS: [&str; 7] = ["nfo", "txt", "mem", "x", "sauce", "an", "ansi"];

fn alt_extensions(fmt: u8) -> Vec<String> {
    FORMATS.iter().find(|f| f.get_file_extension() == ext(fmt)).map(|f| f.get_alt_extensions()).unwrap_or_default()
}

/// (path, loader): the loader is the format's own for every spelling of a registered extension, the ANSI loader for anything else (Buffer::from_bytes falls back to it)
fn path_for(fmt: u8, n: &NameSel) -> (std::path::PathBuf, u8) {
    let e = ext(fmt);
    match n.kind {
        1 => (format!("C11.{}", e.to_ascii_uppercase()).into(), fmt),
        2 => {
            let mixed: String = e.chars().enumerate().map(|(i, c)| if (i + n.k as usize) % 2 == 0 { c.to_ascii_uppercase() } else { c }).collect();
            (format!("c11.{mixed}").into(), fmt)
        }
        3 => {
            let alts = alt_extensions(fmt);
            if alts.is_empty() {
                (file_name(fmt), fmt)
            } else {
                (format!("c11.{}", alts[n.k as usize % alts.len()]).into(), fmt)
            }
        }
        4 => (format!("c11.{}", UNKNOWN_EXTS[n.k as usize % UNKNOWN_EXTS.len()]).into(), ANS),
        5 => ("c11".into(), ANS),
        6 => (format!(".{e}").into(), ANS),
        7 => (format!("pic.{e}.bak").into(), ANS),
        8 => (format!("pic.bak.{e}").into(), fmt),
        9 => (format!("dir.xb/pic.{e}").into(), fmt),
        _ => (file_name(fmt), fmt),
    }
}

/// Names that end up at the ANSI loader make sense for content an ANSI parser can be fed with: the text formats and bin.
/// (xb/tnd/adf/idf/icy files contain font, palette and chunk bytes; the native format keeps its SAUCE in a chunk the ANSI loader cannot see.)
fn name_sel(fmt: u8) -> BoxedStrategy<NameSel> {
    let own = prop_oneof![8 => Just(0u8), 2 => Just(1u8), 2 => Just(2u8), 2 => Just(3u8), 1 => Just(8u8), 1 => Just(9u8)];
    let kind = if matches!(fmt, ANS | ASC | PCB | AVT | BIN) { prop_oneof![20 => own, 8 => Just(4u8), 4 => Just(7u8), 1 => Just(5u8), 1 => Just(6u8)].boxed() } else { own.boxed() };
    (kind, 0u8..8).prop_map(|(kind, k)| NameSel { kind, k: if matches!(kind, 2 | 3 | 4) { k } else { 0 } }).boxed()
}

/// Names without extension: `Path::extension()` is None. If the loader cannot cope with that at all the case says nothing about SAUCE.
fn unusable_name(path: &Path) -> Option<String> {
    if path.extension().is_some() {
        return None;
    }
    match std::panic::catch_unwind(|| Buffer::from_bytes(path, false, b"x").is_ok()) {
        Ok(_) => None,
        Err(_) => Some("file name without extension: Buffer::from_bytes panics before it looks at the data (subject of C02)".to_string()),
    }
}

/// cells + size + the colours the cells point to
#[derive(PartialEq)]
struct Picture {
    w: i32,
    h: i32,
    cells: Vec<(u32, u32, u32, u16, usize, (u8, u8, u8), (u8, u8, u8))>,
}

fn picture(b: &Buffer) -> Picture {
    let (w, h) = (b.get_width(), b.get_height());
    let mut cells = Vec::with_capacity((w.max(0) * h.max(0)) as usize);
    for y in 0..h {
        for x in 0..w {
            let c = b.get_char((x, y));
            let (fg, bg) = (c.attribute.get_foreground(), c.attribute.get_background());
            cells.push((c.ch as u32, fg, bg, c.attribute.attr, c.get_font_page(), b.palette.get_rgb(fg), b.palette.get_rgb(bg)));
        }
    }
    Picture { w, h, cells }
}

/// loaders built on `parse_with_parser` (a terminal emulation over the content: form feed, cursor addressing ... refer to the screen height)
fn ansi_family(loader: u8) -> bool {
    matches!(loader, ANS | ASC | PCB | AVT)
}

/// The record's number of lines is a setting the loader may use (the property conditions the equality of the pictures on width, iCE colours and
/// font only, and does not say the height field is ignored). `record_height`: the number of lines the record states (None: the variant has no such field).
/// With an ANSI-family loader and a stated height other than the loader's default of 25 the two pictures may differ in the number of *blank* rows at the bottom.
fn blank_rows_ok(loader: u8, record_height: Option<i32>) -> bool {
    ansi_family(loader) && record_height.is_some_and(|h| h != 25)
}

/// A file of another format that the file name sends to the ANSI loader (c11.nfo holding Avatar or bin bytes) is arbitrary input to a terminal emulation:
/// attribute bytes read as ESC M (reverse index), form feed, scrolling ... and those act on the screen height, which the loader takes from the record.
/// There the differential clause is only claimed when the record's number of lines is the loader's default too (or the variant states none).
fn height_neutral(loader: u8, fmt: u8, record_height: Option<i32>) -> bool {
    !(ansi_family(loader) && loader != fmt) || record_height.is_none_or(|h| h == 25)
}

fn is_blank(c: &(u32, u32, u32, u16, usize, (u8, u8, u8), (u8, u8, u8))) -> bool {
    (c.0 == 0x20 || c.0 == 0) && (c.2 == 0 || c.6 == (0, 0, 0))
}

/// Some((size clause?, description)) when the pictures differ. Widths must be equal; every row present in both must be equal cell by cell;
/// the heights must be equal too, unless `blank_rows_ok` and every row that only one picture has is entirely blank (no character, default or black background).
fn picture_diff(a: &Picture, b: &Picture, blank_rows_ok: bool) -> Option<(bool, String)> {
    let size = || format!("size with SAUCE {}x{}, content alone {}x{}", a.w, a.h, b.w, b.h);
    if a.w != b.w || (a.h != b.h && !blank_rows_ok) {
        return Some((true, size()));
    }
    for (i, (p, q)) in a.cells.iter().zip(b.cells.iter()).enumerate() {
        if p != q {
            return Some((false, format!("cell ({},{}) with SAUCE {:?}, content alone {:?}", i as i32 % a.w, i as i32 / a.w, p, q)));
        }
    }
    let common = a.cells.len().min(b.cells.len());
    let longer = if a.cells.len() > b.cells.len() { &a.cells } else { &b.cells };
    if let Some(i) = longer[common..].iter().position(|c| !is_blank(c)) {
        let i = (common + i) as i32;
        return Some((true, format!("{}; row {} exists in one picture only and is not blank: cell ({},{}) = {:?}", size(), i / a.w.max(1), i % a.w.max(1), i / a.w.max(1), longer[i as usize])));
    }
    None
}

/// the picture of `content` when no SAUCE handling is involved at all
fn load_plain(name: &Path, loader: u8, content: &[u8]) -> Result<Buffer, String> {
    // a content that itself ends in something that reads as a record is ambiguous for from_bytes: hand it to the format loader directly
    let looks_sauced = content.len() >= 128 && &content[content.len() - 128..content.len() - 123] == b"SAUCE";
    if !looks_sauced {
        return Buffer::from_bytes(name, false, content).map_err(|e| e.to_string());
    }
    for f in FORMATS.iter() {
        if f.get_file_extension() == ext(loader) {
            return f.load_buffer(name, content, None).map_err(|e| e.to_string());
        }
    }
    Err("no such format".into())
}

// ---------------------------------------------------------------------------------------------------------------
// generators

/// bytes 1..=255, mostly printable; one plain strategy (cheap to generate), shrinks towards 'a'
fn text_byte() -> impl Strategy<Value = u8> + Clone {
    (0u16..640).prop_map(|v| match v {
        0..=375 => 0x21 + ((v + 64) % 94) as u8,  // printable ASCII, 0 -> 'a'
        376..=439 => b' ',                        // interior / leading blanks
        440..=567 => 0x80 + (v - 440) as u8,      // high half
        568..=598 => 1 + (v - 568) as u8,         // control range
        _ => [0xFFu8, 0x7F, 0x1A, 0x1B, b'S', b'C'][(v as usize - 599) % 6],
    })
}

/// a Character field of at most `max` bytes: body of bytes 1..=255, optionally followed by trailing blanks / NULs (never beyond `max`)
fn field(max: usize) -> BoxedStrategy<Bytes> {
    let body = prop_oneof![4 => vec(text_byte(), 0..=max), 2 => vec(text_byte(), max..=max), 1 => vec(text_byte(), max - 1..=max - 1), 1 => Just(Vec::new())];
    (body, 0u8..=3, 0usize..=max)
        .prop_map(move |(mut b, kind, n)| {
            let n = n.min(max - b.len());
            for i in 0..n {
                match kind {
                    0 => break,
                    1 => b.push(b' '),
                    2 => b.push(0),
                    _ => b.push(if i % 2 == 0 { b' ' } else { 0 }),
                }
            }
            Bytes(b)
        })
        .boxed()
}

/// comment line: 0..=64 bytes without interior NUL, sometimes with trailing blanks
fn comment_line() -> BoxedStrategy<Bytes> {
    let body = prop_oneof![5 => vec(text_byte(), 0..=12), 1 => vec(text_byte(), 64..=64), 1 => vec(text_byte(), 0..=64), 1 => Just(Vec::new())];
    (body, 0u8..=3, 0usize..=8)
        .prop_map(|(mut b, kind, n)| {
            if kind == 1 {
                let n = n.min(64 - b.len());
                b.resize(b.len() + n, b' ');
            }
            Bytes(b)
        })
        .boxed()
}

/// 0..=255 lines; long blocks repeat a short generated pattern of lines (the model stays an explicit list)
fn comment_lines() -> BoxedStrategy<Vec<Bytes>> {
    let many = (prop_oneof![2 => Just(255usize), 2 => 250usize..=255, 1 => 3usize..=5, 2 => 0usize..=255], vec(comment_line(), 1..=4))
        .prop_map(|(n, pat)| (0..n).map(|i| pat[i % pat.len()].clone()).collect::<Vec<Bytes>>());
    prop_oneof![6 => vec(comment_line(), 0..=3), 4 => many].boxed()
}

fn font() -> BoxedStrategy<Bytes> {
    let n = SAUCE_FONT_NAMES.len();
    prop_oneof![
        3 => Just(Bytes(Vec::new())),
        3 => (0..n).prop_map(|i| Bytes(SAUCE_FONT_NAMES[i].as_bytes().to_vec())),
        1 => vec(text_byte(), 22..=22).prop_map(Bytes),
        2 => vec(text_byte(), 1..=22).prop_map(Bytes),
    ]
    .boxed()
}

const WIDTH_EDGES: [u16; 22] = [1, 2, 3, 40, 79, 81, 132, 159, 161, 254, 255, 256, 257, 320, 509, 510, 511, 512, 513, 640, 999, 1000];

fn width() -> BoxedStrategy<u16> {
    prop_oneof![3 => Just(80u16), 1 => Just(160u16), 2 => 1u16..=1000, 2 => (0..WIDTH_EDGES.len()).prop_map(|i| WIDTH_EDGES[i]), 1 => (0..GRID_W.len()).prop_map(|i| GRID_W[i])].boxed()
}

/// sizes that mean something elsewhere (text modes, pixel resolutions, limits)
const GRID_W: [u16; 18] = [1, 2, 40, 79, 80, 81, 132, 160, 255, 256, 320, 511, 512, 640, 720, 800, 999, 1000];
const GRID_H: [u16; 15] = [1, 2, 24, 25, 26, 43, 50, 60, 100, 200, 350, 400, 480, 600, 1000];

fn height() -> BoxedStrategy<u16> {
    prop_oneof![6 => 1u16..=3, 3 => (0..GRID_H.len()).prop_map(|i| GRID_H[i]), 1 => 1u16..=1000].boxed()
}

/// writers that emit every cell of the document (the stream writers emit only the rows that have content)
fn walks_all_cells(fmt: u8) -> bool {
    matches!(fmt, BIN | XB | TND | ADF | IDF | ICY)
}

/// what the writer itself demands of a document (the writer refuses anything else), and cost limits of this check
fn normalise(fmt: u8, meta: &mut Meta, doc: &mut Doc, height: &mut u16, tag: u8) {
    match fmt {
        ADF => {
            meta.width = 80;
            meta.ice = true;
        }
        IDF => {
            meta.ice = true;
            *height = (*height).min(200);
        }
        _ => {}
    }
    // fonts these formats embed: 8x16 only (adf, idf; the 8x8 / 8x14 pages are left in and get refused), 8 x 1..=32 (xb)
    match fmt {
        ADF | IDF if doc.font_shape >= 2 => *doc = Doc { buffer_type: doc.buffer_type, ..Doc::default() },
        XB if doc.font_shape == 2 => *doc = Doc { buffer_type: doc.buffer_type, ..Doc::default() },
        XB if doc.font_shape == 3 => doc.font_w = 8,
        _ => {}
    }
    match fmt {
        // the native format renders a PNG preview of the whole document: keep most of its documents narrow (cost), all widths stay possible
        ICY => {
            if meta.width > 120 && tag >= 24 {
                meta.width = meta.width % 120 + 1;
            }
            *height = (*height).min(3);
        }
        _ => {}
    }
    // cost: every writer ends up walking width x height cells (the stream writers through the colour optimiser's copy of the document);
    // one stream document in 16 keeps its full size (up to 1000 x 1000), the size_grid part covers the large sizes systematically
    let cap: u32 = if walks_all_cells(fmt) {
        6_000
    } else if tag % 16 == 0 {
        1_000_000
    } else {
        8_000
    };
    *height = (*height).min((cap / meta.width.max(1) as u32).max(1) as u16);
}

fn prev_meta(fmt: u8) -> BoxedStrategy<Meta> {
    let fnt = prop_oneof![1 => Just(Bytes(Vec::new())), 5 => font()];
    ((field(35), field(20), field(20), vec(comment_line(), 0..=2)), (any::<bool>(), any::<bool>(), any::<bool>(), fnt, width(), any::<u8>()))
        .prop_map(move |((title, author, group, comments), (ice, letter_spacing, aspect_ratio, font, width, tag))| {
            let mut meta = Meta { title, author, group, comments, ice, letter_spacing, aspect_ratio, font, width };
            let mut h = 1;
            normalise(fmt, &mut meta, &mut Doc::default(), &mut h, tag);
            if matches!(fmt, BIN | IDF) {
                meta.width = meta.width.min(510);
            }
            meta
        })
        .boxed()
}

fn cells() -> BoxedStrategy<Vec<Cell>> {
    vec((any::<u16>(), 0u8..3, 0x21u8..=0x7E, 0u8..16, 0u8..8).prop_map(|(x, y, ch, fg, bg)| Cell { x, y, ch, fg, bg }), 0..=5).boxed()
}

/// `defaults`: bias towards the loader's defaults (differential clause applies only there)
fn wcase(fmt: u8, defaults: bool) -> BoxedStrategy<WCase> {
    let wd = if defaults { prop_oneof![6 => Just(default_width(fmt) as u16), 1 => width()].boxed() } else { width() };
    let ice = if defaults { prop_oneof![6 => Just(false), 1 => any::<bool>()].boxed() } else { any::<bool>().boxed() };
    let fnt = if defaults { prop_oneof![6 => Just(Bytes(Vec::new())), 1 => font()].boxed() } else { font() };
    let history = prop_oneof![5 => Just(0u8), 2 => Just(1u8), 3 => Just(2u8)];
    let doc = (
        if defaults { prop_oneof![12 => Just(0u8), 1 => 1u8..=3].boxed() } else { prop_oneof![5 => Just(0u8), 2 => Just(1u8), 1 => Just(2u8), 2 => Just(3u8)].boxed() },
        0u8..=42,
        prop_oneof![1 => Just(8u8), 3 => 4u8..=16],
        prop_oneof![1 => Just(16u8), 3 => 1u8..=32],
        if defaults { Just(0u8).boxed() } else { prop_oneof![8 => Just(0u8), 1 => 1u8..=4].boxed() },
    )
        .prop_map(|(font_shape, font_page, font_w, font_h, buffer_type)| match font_shape {
            0 => Doc { buffer_type, ..Doc::default() },
            1 => Doc { font_shape, font_page, buffer_type, ..Doc::default() },
            2 => Doc { font_shape, buffer_type, ..Doc::default() },
            _ => Doc { font_shape, font_page: 0, font_w, font_h, buffer_type },
        });
    ((field(35), field(20), field(20), comment_lines()), (ice, any::<bool>(), any::<bool>(), fnt, wd), (height(), cells(), any::<u8>()), (history, prev_meta(fmt), doc, name_sel(fmt)))
        .prop_map(move |((title, author, group, comments), (ice, letter_spacing, aspect_ratio, font, width), (mut height, cells, tag), (history, prev, mut doc, name))| {
            let mut meta = Meta { title, author, group, comments, ice, letter_spacing, aspect_ratio, font, width };
            normalise(fmt, &mut meta, &mut doc, &mut height, tag);
            // pcb/avt/asc files under a name that selects the ANSI loader: the differential clause needs the default number of lines there (see height_neutral)
            if defaults && matches!(name.kind, 4..=7) && matches!(fmt, ASC | PCB | AVT) && tag % 4 != 0 {
                height = 25;
            }
            WCase { fmt, meta, height, cells, history, prev: if history == 0 { None } else { Some(prev) }, doc, name }
        })
        .boxed()
}

fn wcases(defaults: bool) -> BoxedStrategy<WCase> {
    let weights = [(ANS, 2u32), (ASC, 2), (AVT, 2), (PCB, 2), (BIN, 2), (XB, 2), (TND, 2), (ADF, 1), (IDF, 1), (ICY, 1)];
    proptest::strategy::Union::new_weighted(weights.iter().map(|(f, w)| (*w, wcase(*f, defaults))).collect()).boxed()
}

#[derive(Clone, Debug)]
enum Tok {
    Text(Vec<u8>),
    NewLine,
    Colour(u8, u8),
    Forward(u8),
}

fn render(fmt: u8, toks: &[Tok]) -> Vec<u8> {
    let mut out = Vec::new();
    for t in toks {
        match t {
            Tok::Text(b) => out.extend_from_slice(b),
            Tok::NewLine => out.extend_from_slice(b"\r\n"),
            Tok::Colour(fg, bg) => match fmt {
                ANS => out.extend_from_slice(format!("\x1b[0;{};{}m", 30 + (fg & 7), 40 + (bg & 7)).as_bytes()),
                PCB => out.extend_from_slice(format!("@X{:X}{:X}", bg & 7, fg & 15).as_bytes()),
                AVT => out.extend_from_slice(&[0x16, 0x01, (fg & 15) | ((bg & 7) << 4)]),
                _ => {}
            },
            Tok::Forward(n) => {
                if fmt == ANS {
                    out.extend_from_slice(format!("\x1b[{}C", n).as_bytes());
                }
            }
        }
    }
    out
}

fn fake_record(comments: u8) -> Vec<u8> {
    let r = RefRecord {
        title: b"fake".to_vec(),
        author: b"nobody".to_vec(),
        group: vec![],
        date: *b"19940101",
        file_size: 7,
        data_type: 1,
        file_type: 1,
        tinfo: [40, 10, 0, 0],
        comments: vec![b"fake line".to_vec(); comments as usize],
        tflags: 1,
        tinfos: b"IBM EGA".to_vec(),
    };
    let mut v = Vec::new();
    ref_encode_record(&r, &mut v);
    v
}

fn tail_bytes(kind: u8, n: u8) -> Vec<u8> {
    let n = 1 + n % 3;
    match kind {
        1 => b"SAUCE".to_vec(),
        2 => b"COMNT".to_vec(),
        3 => vec![0x1A],
        4 => b"SAUCE00".to_vec(),
        5 => fake_record(if n == 3 { 0 } else { n }),
        6 => {
            let mut v = b"COMNT".to_vec();
            v.resize(5 + 64 * n as usize, b'x');
            v
        }
        7 => {
            let mut v = vec![0x1A];
            v.extend_from_slice(b"COMNT");
            for _ in 0..n {
                put_padded(&mut v, b"fake line", 64, b' ');
            }
            v.extend(fake_record(n));
            v
        }
        8 => vec![0x1A, 0x1A],
        9 => {
            let mut v = fake_record(0);
            v.pop();
            v
        }
        _ => Vec::new(),
    }
}

const STREAM_FMTS: [u8; 5] = [ANS, ASC, PCB, AVT, BIN];

fn rcase(fmt: u8) -> BoxedStrategy<RCase> {
    let is_stream = STREAM_FMTS.contains(&fmt);
    let tok = prop_oneof![
        5 => vec(0x20u8..=0x7E, 1..=10).prop_map(Tok::Text),
        1 => vec(0x80u8..=0xFF, 1..=4).prop_map(Tok::Text),
        2 => Just(Tok::NewLine),
        2 => (0u8..16, 0u8..8).prop_map(|(f, b)| Tok::Colour(f, b)),
        1 => (1u8..=20).prop_map(Tok::Forward),
        // marker-like bytes in the middle of the content
        1 => prop_oneof![Just(b"SAUCE".to_vec()), Just(b"COMNT".to_vec()), Just(vec![0x1Au8]), Just(b"SAUCE00".to_vec()), Just(b"\x1aCOMNT".to_vec())].prop_map(Tok::Text),
    ];
    let content = if !is_stream {
        Just((Bytes(Vec::new()), 0u8)).boxed()
    } else if fmt == BIN {
        // char/attribute pairs (blink bit clear), optionally a marker-like tail made of the same kind of bytes
        (vec((0x20u8..=0x7E, 0u8..0x80), 0..=200), prop_oneof![3 => Just(0u8), 5 => 1u8..=9], any::<u8>())
            .prop_map(|(pairs, tail, n)| {
                let mut v: Vec<u8> = pairs.iter().flat_map(|(c, a)| [*c, *a]).collect();
                v.extend(tail_bytes(tail, n));
                (Bytes(v), tail)
            })
            .boxed()
    } else {
        (vec(tok, 0..=8), prop_oneof![3 => Just(0u8), 5 => 1u8..=9], any::<u8>())
            .prop_map(move |(toks, tail, n)| {
                let mut v = render(fmt, &toks);
                v.extend(tail_bytes(tail, n));
                (Bytes(v), tail)
            })
            .boxed()
    };
    (
        (content, cells(), 1u8..=3),
        (field(35), field(20), field(20), comment_lines(), any::<bool>()),
        (0u8..=3, 0u8..=3, 0u8..=3, 1u16..=300, prop_oneof![6 => Just(0u8), 1 => Just(1u8), 1 => Just(2u8)], 1001u16..=65535, any::<bool>(), any::<bool>()),
        free(),
        name_sel(fmt),
    )
        .prop_map(
            move |(((content, tail), cells, height), (title, author, group, comments, comment_pad_nul), (ls, ar, lines_sel, lines_val, width_sel, big_width, font_ibm_vga, ansimation), free, name)| RCase {
                fmt,
                content,
                tail,
                cells: if is_stream { Vec::new() } else { cells },
                height,
                title,
                author,
                group,
                comments,
                comment_pad_nul,
                ls,
                ar,
                // pcb/avt/asc bytes under a name that selects the ANSI loader: the differential clause needs the default number of lines there (see height_neutral)
                lines_sel: if matches!(name.kind, 4..=7) && fmt != ANS && lines_val % 4 != 0 { 2 } else { lines_sel },
                lines_val,
                // bin has no "0 means 80" default of its own (its loader default is 160); block formats carry their width themselves
                width_sel: if fmt == BIN { 0 } else { width_sel },
                big_width,
                font_ibm_vga,
                ansimation: ansimation && fmt == ANS,
                // bin: its natural variant (BinaryText) is the only one that states bin's own default width of 160 without also stating a number of lines;
                // a record without character width reads as "width not given" = 80 (deliberate, see the property), and the number of lines of a Character / XBin
                // record becomes the height of a picture without rows. Neither is something the property speaks about: bin keeps its natural variant.
                free: if fmt == BIN { Free { odd_type: 0, data_type: 0, file_type: 0, ..free } } else { free },
                name,
            },
        )
        .boxed()
}

/// half of the records keep every free field at the document's value, the other half varies all of them independently
fn free() -> BoxedStrategy<Free> {
    let varied = (
        (prop_oneof![4 => Just(0u8), 6 => 1u8..=6, 2 => Just(7u8)], prop_oneof![3 => 0u32..=600, 1 => any::<u32>()]),
        (prop_oneof![8 => Just(0u8), 3 => 1u8..=4, 1 => Just(5u8)], vec(prop_oneof![3 => 0x30u8..=0x39, 1 => any::<u8>()], 8..=8)),
        (any::<u16>(), any::<u16>(), 0u8..8, any::<u8>()),
        vec(any::<u8>(), 0..=22),
        (prop_oneof![3 => Just(0u8), 1 => Just(1u8)], prop_oneof![4 => 0u8..=8, 1 => any::<u8>()], prop_oneof![3 => 0u8..=9, 1 => any::<u8>()]),
    )
        .prop_map(|((size_sel, size_val), (date_sel, date_raw), (tinfo3, tinfo4, flags_hi, flags_lo), junk, (odd_type, data_type, file_type))| Free {
            size_sel,
            size_val,
            date_sel,
            date_raw: Bytes(if date_sel == 5 { date_raw } else { Vec::new() }),
            tinfo3,
            tinfo4,
            flags_hi,
            flags_lo,
            tinfos_junk: Bytes(junk),
            odd_type,
            data_type: if odd_type == 0 { 0 } else { data_type },
            file_type: if odd_type == 0 { 0 } else { file_type },
        });
    prop_oneof![1 => Just(Free::default()), 1 => varied].boxed()
}

fn rcases() -> BoxedStrategy<RCase> {
    let weights = [(ANS, 4u32), (ASC, 2), (PCB, 2), (AVT, 2), (BIN, 2), (XB, 1), (TND, 1), (ADF, 1), (IDF, 1)];
    proptest::strategy::Union::new_weighted(weights.iter().map(|(f, w)| (*w, rcase(*f))).collect()).boxed()
}

// ---------------------------------------------------------------------------------------------------------------
// non-triviality (NT): >= 1 comment, or a field at maximal length, or marker-like content

fn meta_nontrivial(title: &[u8], author: &[u8], group: &[u8], comments: &[Bytes]) -> bool {
    !comments.is_empty() || title.len() == 35 || author.len() == 20 || group.len() == 20 || comments.iter().any(|c| c.len() == 64)
}

fn wclass(c: &WCase) -> String {
    let n = c.meta.comments.len();
    format!("{}|{}|{}", ext(c.fmt), if n == 0 { "c=0" } else if n < 250 { "c<250" } else { "c>=250" }, ["fresh", "reloaded", "set_sauce+edit"][c.history.min(2) as usize])
}

// ---------------------------------------------------------------------------------------------------------------
// clause 1: metadata round trip

fn sstr_mismatch<const L: usize, const E: u8>(got: &SauceString<L, E>, given: &SauceString<L, E>, model: &[u8]) -> Option<String> {
    if got != given {
        return Some(format!("loaded {:?} is not equal (SauceString ==) to the value given to set_sauce {:?}", got, given));
    }
    let want = strip(model);
    match from_uni(&got.to_string()) {
        Some(b) if b == want => None,
        other => Some(format!("loaded text \"{}\" / pad-stripped bytes {:?}, model \"{}\"", got, other.map(|b| escape(&b)), escape(want))),
    }
}

/// Save errors that say "this variant cannot carry that": BinaryText has one byte for width/2.
fn legit_refusal(c: &WCase, err: &str) -> bool {
    if (c.fmt == BIN || c.fmt == IDF) && c.meta.width as i32 / 2 > 255 && err.contains("bin file width limit") {
        return true;
    }
    // formats that embed the font have their own limits on it
    let f = base_font(&c.doc);
    let (w, h) = (f.size.width, f.size.height);
    match c.fmt {
        ADF | IDF => (w, h) != (8, 16) && err.contains("8x16"),
        XB => ((w != 8 || !(1..=32).contains(&h)) && err.contains(".xb format")) || (f.length != 256 && err.contains("256 chars long")),
        _ => false,
    }
}

/// A failure is keyed like the same failure of the plain document (default font and buffer type, fresh buffer) when that one fails as well;
/// only when the document state or the history is needed the key gets the input class `doc_state` / `after_history`.
fn with_history_class(c: &WCase, check: fn(&WCase) -> Verdict) -> Verdict {
    let v = check(c);
    let Verdict::Fail { key, msg } = &v else {
        return v;
    };
    let same = |d: &WCase| matches!(check(d), Verdict::Fail { key: k, .. } if k == *key);
    if c.doc != Doc::default() {
        let plain = WCase { doc: Doc::default(), ..c.clone() };
        if !same(&plain) {
            let f = base_font(&c.doc);
            return Verdict::fail(
                format!("{key}|doc_state"),
                format!("{msg} [font 0 is \"{}\" {}x{}, buffer type {}; the same document with the default font and CP437 passes]", f.name, f.size.width, f.size.height, c.doc.buffer_type),
            );
        }
    }
    if c.name != NameSel::default() {
        let plain = WCase { name: NameSel::default(), ..c.clone() };
        if !same(&plain) {
            return Verdict::fail(format!("{key}|file_name"), format!("{msg} [loaded as {:?}; the same file loaded as {:?} passes]", path_for(c.fmt, &c.name).0, file_name(c.fmt)));
        }
    }
    if c.history != 0 {
        let fresh = WCase { history: 0, prev: None, ..c.clone() };
        if !same(&fresh) {
            let how = if c.history == 1 { "buffer was loaded from a file saved with other metadata, then edited" } else { "set_sauce(older record, resize) on a new buffer, then edited" };
            return Verdict::fail(format!("{key}|after_history"), format!("{msg} [{how}; the same document built fresh passes]"));
        }
    }
    v
}

fn check_meta(c: &WCase) -> Verdict {
    with_history_class(c, check_meta_once)
}

fn check_writer_split(c: &WCase) -> Verdict {
    with_history_class(c, check_writer_split_once)
}

fn check_meta_once(c: &WCase) -> Verdict {
    let fmt = ext(c.fmt);
    let (path, loader) = path_for(c.fmt, &c.name);
    if let Some(why) = unusable_name(&path) {
        return Verdict::discard(why);
    }
    let buf = match build(c, true) {
        Ok(b) => b,
        Err(e) => return Verdict::discard(e),
    };
    let bytes = match buf.to_bytes(fmt, &save_opts(true)) {
        Ok(b) => b,
        Err(e) => {
            let e = e.to_string();
            if legit_refusal(c, &e) {
                return Verdict::pass(false, format!("{fmt}|refused"));
            }
            return Verdict::fail(format!("save.error|fmt={fmt}"), format!("writer refused a document of its own domain: {e}"));
        }
    };
    let loaded = match Buffer::from_bytes(&path, false, &bytes) {
        Ok(b) => b,
        Err(e) => return Verdict::fail(format!("load.error|fmt={fmt}"), format!("file written with SAUCE does not load as {path:?}: {e}")),
    };
    let Some(s) = loaded.get_sauce() else {
        return Verdict::fail(format!("meta.absent|fmt={fmt}"), "file saved with SAUCE, get_sauce() after load is None".to_string());
    };
    let given = sauce_of(&c.meta, c.height as i32);
    let m = &c.meta;
    if let Some(d) = sstr_mismatch(&s.title, &given.title, &m.title) {
        return Verdict::fail(format!("meta.title|fmt={fmt}"), d);
    }
    if let Some(d) = sstr_mismatch(&s.author, &given.author, &m.author) {
        return Verdict::fail(format!("meta.author|fmt={fmt}"), d);
    }
    if let Some(d) = sstr_mismatch(&s.group, &given.group, &m.group) {
        return Verdict::fail(format!("meta.group|fmt={fmt}"), d);
    }
    if s.comments.len() != m.comments.len() {
        return Verdict::fail(format!("meta.comments.count|fmt={fmt}"), format!("{} comment lines saved, {} loaded", m.comments.len(), s.comments.len()));
    }
    for (i, (got, model)) in s.comments.iter().zip(m.comments.iter()).enumerate() {
        if let Some(d) = sstr_mismatch(got, &given.comments[i], zvalue(model)) {
            return Verdict::fail(format!("meta.comments.text|fmt={fmt}"), format!("line {i}: {d}"));
        }
    }
    // width: the loader uses the carried value when it is in 1..=1000 and 80 otherwise (stated in the property)
    let cw = carried_width(c.fmt, m.width as i32);
    // (iCE Draw files carry their exact width in the IDF header, which wins over the even BinaryText width of the record)
    let want_w = if c.fmt == IDF && loader == IDF {
        m.width as i32
    } else if (1..=1000).contains(&cw) {
        cw
    } else {
        80
    };
    if loaded.get_width() != want_w {
        return Verdict::fail(format!("meta.width.buffer|fmt={fmt}"), format!("saved width {}, variant carries {cw}, loaded buffer is {} wide", m.width, loaded.get_width()));
    }
    // (for iCE Draw the record is re-synchronised with the width of the IDF header on load)
    let cw = if c.fmt == IDF && loader == IDF { want_w } else { cw };
    if (1..=1000).contains(&cw) && s.buffer_size.width != cw {
        return Verdict::fail(format!("meta.width.sauce|fmt={fmt}"), format!("saved width {}, variant carries {cw}, get_sauce().buffer_size.width = {}", m.width, s.buffer_size.width));
    }
    let carries = carries_flags_and_font(c.fmt);
    // font name (ZString, 22): the name of font 0 where the variant has a FontName, nothing otherwise
    let want_font: Vec<u8> = if carries { carried_font_name(&buf) } else { Vec::new() };
    let got_font = s.font_opt.clone().unwrap_or_default();
    if from_uni(&got_font).as_deref().map(strip) != Some(strip(&want_font)) {
        return Verdict::fail(
            format!("meta.font|fmt={fmt}"),
            format!("font name loaded {:?}, expected \"{}\" ({})", s.font_opt, escape(strip(&want_font)), if carries { "variant has FontName" } else { "variant has no FontName" }),
        );
    }
    let want_ice = carries && m.ice;
    if s.use_ice != want_ice {
        return Verdict::fail(format!("meta.ice|fmt={fmt}"), format!("ice saved {}, loaded {} (variant {} ANSiFlags)", m.ice, s.use_ice, if carries { "has" } else { "has no" }));
    }
    let want_ls = carries && m.letter_spacing;
    if s.use_letter_spacing != want_ls {
        return Verdict::fail(
            format!("meta.letter_spacing|fmt={fmt}"),
            format!("letter spacing saved {}, loaded {} (variant {} ANSiFlags)", m.letter_spacing, s.use_letter_spacing, if carries { "has" } else { "has no" }),
        );
    }
    let want_ar = carries && m.aspect_ratio;
    if s.use_aspect_ratio != want_ar {
        return Verdict::fail(
            format!("meta.aspect_ratio|fmt={fmt}"),
            format!("aspect ratio saved {}, loaded {} (variant {} ANSiFlags)", m.aspect_ratio, s.use_aspect_ratio, if carries { "has" } else { "has no" }),
        );
    }
    Verdict::pass(meta_nontrivial(&m.title, &m.author, &m.group, &m.comments), wclass(c))
}

// ---------------------------------------------------------------------------------------------------------------
// clause 2 + 3 on engine-written files

fn header_len_key(n: usize) -> String {
    format!("split.header_len|{}", if n > 0 { "comments>0" } else { "comments=0" })
}

/// SauceData::extract on `file` must report a trailer of exactly `want` bytes
fn check_extract_len(file: &[u8], n_comments: usize, want: usize) -> Result<(), Verdict> {
    match SauceData::extract(file) {
        Ok(Some(s)) => {
            if s.sauce_header_len != want {
                return Err(Verdict::fail(
                    header_len_key(n_comments),
                    format!("{} comment lines, file of {} bytes: sauce_header_len = {}, the document gives 1 + (5 + 64n) + 128 = {want}", n_comments, file.len(), s.sauce_header_len),
                ));
            }
            Ok(())
        }
        Ok(None) => Err(Verdict::fail("split.not_recognised", format!("extract finds no SAUCE in a file of {} bytes that ends in a record", file.len()))),
        Err(e) => Err(Verdict::fail("split.extract_error", format!("extract fails on a well formed trailer ({} comment lines): {e}", n_comments))),
    }
}

fn check_writer_split_once(c: &WCase) -> Verdict {
    let fmt = ext(c.fmt);
    let m = &c.meta;
    let (name, loader) = path_for(c.fmt, &c.name);
    if let Some(why) = unusable_name(&name) {
        return Verdict::discard(why);
    }
    let buf = match build(c, true) {
        Ok(b) => b,
        Err(e) => return Verdict::discard(e),
    };
    let with = match buf.to_bytes(fmt, &save_opts(true)) {
        Ok(b) => b,
        Err(e) => {
            let e = e.to_string();
            if legit_refusal(c, &e) {
                return Verdict::pass(false, format!("{fmt}|refused"));
            }
            return Verdict::fail(format!("save.error|fmt={fmt}"), format!("writer refused a document of its own domain: {e}"));
        }
    };
    // the native format keeps SAUCE in a chunk of its own: only the differential clause applies
    let without = if c.fmt == ICY {
        match build(c, true) {
            Ok(mut b) => {
                b.set_sauce(None, false);
                b.to_bytes(fmt, &save_opts(false))
            }
            Err(e) => return Verdict::discard(e),
        }
    } else {
        buf.to_bytes(fmt, &save_opts(false))
    };
    let without = match without {
        Ok(b) => b,
        Err(e) => return Verdict::fail(format!("save.error.nosauce|fmt={fmt}"), e.to_string()),
    };
    let n = m.comments.len();
    if c.fmt != ICY {
        // (a) the writer appended, it did not touch the content
        if !with.starts_with(&without) {
            return Verdict::fail(format!("split.writer_content_changed|fmt={fmt}"), "file with SAUCE does not start with the bytes of the file without SAUCE".to_string());
        }
        // (b) reference decoder: content | EOF | [COMNT lines] | record, every field where the document puts it
        let p = match ref_decode(&with) {
            Ok(p) => p,
            Err(piece) => return Verdict::fail(format!("record.layout.{piece}|fmt={fmt}"), format!("written file ({} bytes, {n} comment lines) is not content+EOF+[COMNT]+record", with.len())),
        };
        if p.content_len != without.len() {
            return Verdict::fail(
                format!("split.writer_trailer_len|{}|fmt={fmt}", if n > 0 { "comments>0" } else { "comments=0" }),
                format!("content is {} bytes, the trailer starts at {} (file {} bytes, {n} comment lines)", without.len(), p.content_len, with.len()),
            );
        }
        if p.comments.len() != n {
            return Verdict::fail(format!("record.comments|fmt={fmt}"), format!("Comments field {} for {n} lines", p.comments.len()));
        }
        for (what, got, want) in [("title", &p.title, &m.title), ("author", &p.author, &m.author), ("group", &p.group, &m.group)] {
            if strip(got) != strip(want) {
                return Verdict::fail(format!("record.{what}|fmt={fmt}"), format!("field bytes \"{}\", model \"{}\"", escape(got), escape(want)));
            }
        }
        for (i, (got, want)) in p.comments.iter().zip(m.comments.iter()).enumerate() {
            if zvalue(got) != zvalue(want) {
                return Verdict::fail(format!("record.comment_line|fmt={fmt}"), format!("line {i} bytes \"{}\", model \"{}\"", escape(got), escape(want)));
            }
        }
        let (want_dt, want_ft): (u8, Option<u8>) = match c.fmt {
            ANS | ADF => (1, Some(1)),
            ASC => (1, Some(0)),
            PCB => (1, Some(4)),
            AVT => (1, Some(5)),
            TND => (1, Some(8)),
            BIN | IDF => (5, None),
            _ => (6, Some(0)),
        };
        if p.data_type != want_dt || want_ft.is_some_and(|f| f != p.file_type) {
            return Verdict::fail(format!("record.type|fmt={fmt}"), format!("DataType {} FileType {}, expected {want_dt}/{want_ft:?}", p.data_type, p.file_type));
        }
        let got_w = if want_dt == 5 { p.file_type as i32 * 2 } else { p.tinfo1 as i32 };
        if got_w != carried_width(c.fmt, m.width as i32) {
            return Verdict::fail(format!("record.width|fmt={fmt}"), format!("record says width {got_w}, document is {} wide", m.width));
        }
        let carries = carries_flags_and_font(c.fmt);
        let want_flags_ice = carries && m.ice;
        if (p.tflags & 1 != 0) != want_flags_ice {
            return Verdict::fail(format!("record.flags.ice|fmt={fmt}"), format!("TFlags {:#04x}, ice {}", p.tflags, m.ice));
        }
        if !carries && (p.tflags != 0 || p.tinfos.iter().any(|b| *b != 0)) {
            return Verdict::fail(format!("record.flags.invented|fmt={fmt}"), format!("variant has neither flags nor font name, TFlags {:#04x} TInfoS \"{}\"", p.tflags, escape(&p.tinfos)));
        }
        if carries {
            let want_font = carried_font_name(&buf);
            if zvalue(&p.tinfos) != strip(&want_font) {
                return Verdict::fail(format!("record.font|fmt={fmt}"), format!("TInfoS \"{}\", name of font 0 \"{}\"", escape(&p.tinfos), escape(&want_font)));
            }
        }
        // (c) the engine's splitter against the document's arithmetic
        if let Err(v) = check_extract_len(&with, n, ref_trailer_len(n)) {
            return v;
        }
        if with.len() - without.len() != ref_trailer_len(n) {
            return Verdict::fail(format!("split.writer_trailer_len|{}|fmt={fmt}", if n > 0 { "comments>0" } else { "comments=0" }), format!("trailer of {} bytes for {n} lines", with.len() - without.len()));
        }
    }
    // (d) differential: record's width / ice / font equal to the loader's defaults => same picture as the content alone
    let default_ice = if matches!(c.fmt, ADF | IDF) { m.ice } else { !m.ice };
    let defaults = m.width as i32 == default_width(loader) && default_ice && m.font.is_empty() && c.doc.font_shape == 0;
    if !defaults {
        return Verdict::pass(meta_nontrivial(&m.title, &m.author, &m.group, &m.comments), format!("{}|layout-only", wclass(c)));
    }
    let a = match Buffer::from_bytes(&name, false, &with) {
        Ok(b) => b,
        Err(e) => return Verdict::fail(format!("load.error|fmt={fmt}"), format!("file written with SAUCE does not load: {e}")),
    };
    let b = match Buffer::from_bytes(&name, false, &without) {
        Ok(b) => b,
        Err(e) => return Verdict::fail(format!("load.error.nosauce|fmt={fmt}"), format!("file written without SAUCE does not load: {e}")),
    };
    // number of lines in the record the writer made: the buffer height (TundraDraw records are written without it, BinaryText has no such field)
    let record_height = match c.fmt {
        BIN | IDF => None,
        TND => Some(0),
        _ => Some(c.height as i32),
    };
    if !height_neutral(loader, c.fmt, record_height) {
        return Verdict::pass(meta_nontrivial(&m.title, &m.author, &m.group, &m.comments), format!("{}|layout-only", wclass(c)));
    }
    if let Some((size, d)) = picture_diff(&picture(&a), &picture(&b), blank_rows_ok(loader, record_height)) {
        return Verdict::fail(format!("differential.{}|fmt={fmt}", if size { "size" } else { "cells" }), d);
    }
    Verdict::pass(meta_nontrivial(&m.title, &m.author, &m.group, &m.comments), format!("{}|differential", wclass(c)))
}

// ---------------------------------------------------------------------------------------------------------------
// clause 2 + 3 on reference-encoded trailers

fn rcontent(c: &RCase) -> Result<Vec<u8>, String> {
    if STREAM_FMTS.contains(&c.fmt) {
        return Ok(c.content.0.clone());
    }
    let (w, h) = (80, c.height as i32);
    let mut buf = Buffer::new((w, h));
    buf.ice_mode = if matches!(c.fmt, ADF | IDF) { IceMode::Ice } else { IceMode::Blink };
    put_cells(&mut buf, &c.cells, w, h);
    buf.to_bytes(ext(c.fmt), &save_opts(false)).map_err(|e| e.to_string())
}

/// Does this DataType/FileType pair have ANSiFlags + FontName (document: ASCII, ANSi, ANSiMation, BinaryText)?
fn variant_has_flags(data_type: u8, file_type: u8) -> bool {
    data_type == 5 || (data_type == 1 && file_type <= 2)
}

/// Does it have a character width in TInfo1 (Character: ASCII, ANSi, ANSiMation, PCBoard, Avatar, TundraDraw; XBin)?
fn variant_has_tinfo_width(data_type: u8, file_type: u8) -> bool {
    data_type == 6 || (data_type == 1 && matches!(file_type, 0 | 1 | 2 | 4 | 5 | 8))
}

const FREE_FIELDS: [&str; 6] = ["filesize", "date", "tinfo3_4", "tflags_reserved", "tinfos_padding", "datatype_filetype"];

/// the case with one group of free fields put back to the document's value
fn without_free_field(c: &RCase, i: usize) -> RCase {
    let mut d = c.clone();
    let f = &mut d.free;
    match i {
        0 => (f.size_sel, f.size_val) = (0, 0),
        1 => (f.date_sel, f.date_raw) = (0, Bytes(Vec::new())),
        2 => (f.tinfo3, f.tinfo4) = (0, 0),
        3 => (f.flags_hi, f.flags_lo) = (0, 0),
        4 => f.tinfos_junk = Bytes(Vec::new()),
        _ => (f.odd_type, f.data_type, f.file_type) = (0, 0, 0),
    }
    d
}

/// A failure that disappears when one free field is put back to the document's value is keyed with that field.
fn check_reader_split(c: &RCase) -> Verdict {
    let v = check_reader_split_once(c);
    if let Verdict::Fail { key, msg } = &v {
        if c.name != NameSel::default() {
            let d = RCase { name: NameSel::default(), ..c.clone() };
            if !matches!(check_reader_split_once(&d), Verdict::Fail { key: k, .. } if k == *key) {
                return Verdict::fail(format!("{key}|file_name"), format!("{msg} [does not fail when loaded as {:?}]", file_name(c.fmt)));
            }
        }
    }
    if c.free == Free::default() {
        return v;
    }
    if let Verdict::Fail { key, msg } = &v {
        for (i, name) in FREE_FIELDS.iter().enumerate() {
            let d = without_free_field(c, i);
            if d.free != c.free && !matches!(check_reader_split_once(&d), Verdict::Fail { key: k, .. } if k == *key) {
                return Verdict::fail(format!("{key}|field={name}"), format!("{msg} [does not fail with the document's value in that field]"));
            }
        }
    }
    v
}

fn check_reader_split_once(c: &RCase) -> Verdict {
    let fmt = ext(c.fmt);
    let content = match rcontent(c) {
        Ok(b) => b,
        Err(e) => return Verdict::discard(format!("content writer: {e}")),
    };
    let (path, loader) = path_for(c.fmt, &c.name);
    if let Some(why) = unusable_name(&path) {
        return Verdict::discard(why);
    }
    let plain = match load_plain(&path, loader, &content) {
        Ok(b) => b,
        Err(e) => return Verdict::discard(format!("content alone does not load: {e}")),
    };
    let plain_pic = picture(&plain);
    let lines = match c.lines_sel {
        0 => 0,
        1 => plain_pic.h.clamp(0, 65535) as u16,
        2 => 25,
        _ => c.lines_val,
    };
    // the defaults that count are those of the loader the file name selects
    let dw = default_width(loader) as u16;
    let w = match c.width_sel {
        0 => dw,
        1 => 0,
        _ => c.big_width,
    };
    let f = &c.free;
    let natural = f.odd_type == 0;
    let (data_type, mut file_type) = if natural {
        match c.fmt {
            ANS | ADF => (1u8, if c.ansimation { 2u8 } else { 1 }),
            ASC => (1, 0),
            PCB => (1, 4),
            AVT => (1, 5),
            TND => (1, 8),
            BIN | IDF => (5, 0),
            _ => (6, 0),
        }
    } else {
        (f.data_type, f.file_type)
    };
    // the width setting of the record has to equal the loader's default *in the reading of its own variant*:
    // BinaryText keeps width/2 in FileType, the Character text types and XBin keep it in TInfo1, every other variant has no character width at all
    let mut tinfo = [w, lines, f.tinfo3, f.tinfo4];
    if data_type == 5 {
        file_type = match c.width_sel {
            1 => 0,
            _ => (dw / 2) as u8,
        };
        tinfo = [if natural { 0 } else { f.size_val as u16 }, if natural { 0 } else { lines }, f.tinfo3, f.tinfo4];
    } else if !variant_has_tinfo_width(data_type, file_type) {
        tinfo[0] = f.size_val as u16 ^ f.tinfo3;
    }
    let has_flags = variant_has_flags(data_type, file_type);
    // ANSiFlags: bit 0 (iCE) stays 0 = the default; LS and AR any of the four values; bits 5..7 reserved
    let tflags = if has_flags { ((c.ls & 3) << 1) | ((c.ar & 3) << 3) | (f.flags_hi << 5) } else { f.flags_lo };
    // TInfoS: a ZString; what follows the terminator is padding. Variants without FontName: the field means nothing.
    let mut tinfos: Vec<u8> = if has_flags && c.font_ibm_vga { b"IBM VGA".to_vec() } else { Vec::new() };
    if !f.tinfos_junk.is_empty() {
        if has_flags {
            tinfos.push(0);
        }
        tinfos.extend_from_slice(&f.tinfos_junk);
        tinfos.truncate(22);
    }
    let len = content.len() as u32;
    let file_size = match f.size_sel {
        0 => len,
        1 => 0,
        2 => 1,
        3 => len.saturating_sub(1),
        4 => len + 1,
        5 => len + 2,
        6 => u32::MAX,
        _ => f.size_val,
    };
    let mut date = *b"20130504";
    match f.date_sel {
        0 => {}
        1 => date = *b"        ",
        2 => date = *b"00000000",
        3 => date = *b"19941332",
        4 => date = [0; 8],
        _ => {
            for (d, s) in date.iter_mut().zip(f.date_raw.iter()) {
                *d = *s;
            }
        }
    }
    let rec = RefRecord {
        title: c.title.0.clone(),
        author: c.author.0.clone(),
        group: c.group.0.clone(),
        date,
        file_size,
        data_type,
        file_type,
        tinfo,
        comments: c.comments.iter().map(|b| b.0.clone()).collect(),
        tflags,
        tinfos,
    };
    let n = rec.comments.len();
    let trailer = ref_encode_trailer(&rec, if c.comment_pad_nul { 0 } else { b' ' });
    debug_assert_eq!(trailer.len(), ref_trailer_len(n));
    let mut file = content.clone();
    file.extend_from_slice(&trailer);

    if let Err(v) = check_extract_len(&file, n, trailer.len()) {
        return v;
    }
    let lines_class = ["lines=0", "lines=actual", "lines=25", "lines=other"][c.lines_sel.min(3) as usize];
    let loaded = match Buffer::from_bytes(&path, false, &file) {
        Ok(b) => b,
        Err(e) => return Verdict::fail(format!("differential.load_error|fmt={fmt}"), format!("content alone loads, content+EOF+SAUCE does not: {e}")),
    };
    let describe = || format!("record DataType={data_type} FileType={file_type} TInfo={tinfo:?} TFlags={tflags:#04x} FileSize={file_size} (content {len} bytes) Date=\"{}\" ({lines_class}), {n} comment lines, content tail kind {}, loaded as {path:?}", escape(&date), c.tail);
    // the number of lines this record states, in the reading of its own variant (TInfo2 for the Character text types and XBin)
    let record_height = if data_type != 5 && variant_has_tinfo_width(data_type, file_type) { Some(tinfo[1] as i32) } else { None };
    if height_neutral(loader, c.fmt, record_height) {
        if let Some((size, d)) = picture_diff(&picture(&loaded), &plain_pic, blank_rows_ok(loader, record_height)) {
            return Verdict::fail(format!("differential.{}|fmt={fmt}", if size { "size" } else { "cells" }), format!("{}: {d}", describe()));
        }
    }
    // the metadata every variant carries, and the render hints of the variants the crate's own writers produce (ASCII, ANSi, BinaryText)
    let hand = "hand_built";
    let Some(s) = loaded.get_sauce() else {
        // iCE Draw / native files: the loaders decide themselves what they keep; everything else has to show the record
        return Verdict::fail(format!("meta.absent|fmt={fmt}|{hand}"), format!("{}: get_sauce() after load is None", describe()));
    };
    for (what, got, want) in [("title", s.title.to_string(), &c.title), ("author", s.author.to_string(), &c.author), ("group", s.group.to_string(), &c.group)] {
        if from_uni(&got).as_deref() != Some(strip(want)) {
            return Verdict::fail(format!("meta.{what}|{hand}"), format!("{}: loaded \"{got}\", record field \"{}\"", describe(), escape(want)));
        }
    }
    if s.comments.len() != n {
        return Verdict::fail(format!("meta.comments.count|{hand}"), format!("{}: {} lines loaded", describe(), s.comments.len()));
    }
    for (i, (got, want)) in s.comments.iter().zip(c.comments.iter()).enumerate() {
        if from_uni(&got.to_string()).as_deref() != Some(zvalue(want)) {
            return Verdict::fail(format!("meta.comments.text|{hand}"), format!("{}: line {i} loaded \"{got}\", block has \"{}\"", describe(), escape(want)));
        }
    }
    if has_flags && !(data_type == 1 && file_type == 2) {
        if s.use_ice {
            return Verdict::fail(format!("meta.ice|{hand}"), format!("{}: iCE bit clear, loaded use_ice = true", describe()));
        }
        if c.ls <= 2 && s.use_letter_spacing != (c.ls == 2) {
            return Verdict::fail(format!("meta.letter_spacing|{hand}"), format!("{}: LS field {}, loaded {}", describe(), c.ls, s.use_letter_spacing));
        }
        if c.ar <= 2 && s.use_aspect_ratio != (c.ar == 1) {
            return Verdict::fail(format!("meta.aspect_ratio|{hand}"), format!("{}: AR field {}, loaded {}", describe(), c.ar, s.use_aspect_ratio));
        }
    }
    let marker = c.tail != 0;
    let tail_class = ["none", "SAUCE", "COMNT", "EOF", "SAUCE00", "record", "comment_block", "trailer", "EOFEOF", "record-1"][c.tail.min(9) as usize];
    Verdict::pass(marker || meta_nontrivial(&c.title, &c.author, &c.group, &c.comments), format!("{fmt}|tail={tail_class}|{}", if c.free == Free::default() { "plain_record" } else { "free_fields" }))
}

// ---------------------------------------------------------------------------------------------------------------
// exhaustive small files

#[derive(Clone, Debug, Hash, Serialize, Deserialize)]
struct DCase {
    fmt: u8,
    comments: u8,
    content: Bytes,
    eof: bool,
    #[serde(default)]
    name: NameSel,
}

const D_CONTENTS: [&[u8]; 3] = [b"", b"A", b"AB"];

const D_NAMES: [u8; 3] = [0, 1, 4];

fn dcase(i: u64) -> DCase {
    let name = NameSel { kind: D_NAMES[(i / 2048) as usize % 3], k: (i % 7) as u8 };
    let name = if matches!(name.kind, 2 | 3 | 4) { name } else { NameSel { k: 0, ..name } };
    DCase { name, ..dcase0(i % 2048) }
}

fn dcase0(i: u64) -> DCase {
    // 0..1536: with EOF, n x content x {ans,bin}; 1536..2048: no EOF, no content (nothing but SAUCE), n x {ans,bin}
    if i < 1536 {
        let n = (i % 256) as u8;
        let k = ((i / 256) % 3) as usize;
        let fmt = if i / 768 == 0 { ANS } else { BIN };
        DCase { fmt, comments: n, content: Bytes(D_CONTENTS[k].to_vec()), eof: true, name: NameSel::default() }
    } else {
        let j = i - 1536;
        DCase { fmt: if j / 256 == 0 { ANS } else { BIN }, comments: (j % 256) as u8, content: Bytes(Vec::new()), eof: false, name: NameSel::default() }
    }
}

fn check_degenerate(c: &DCase) -> Verdict {
    let fmt = ext(c.fmt);
    let n = c.comments as usize;
    let (name, loader) = path_for(c.fmt, &c.name);
    let dw = default_width(loader) as u16;
    let rec = RefRecord {
        title: b"t".to_vec(),
        author: vec![],
        group: vec![],
        date: *b"20130504",
        file_size: c.content.len() as u32,
        data_type: if c.fmt == BIN { 5 } else { 1 },
        file_type: if c.fmt == BIN { (dw / 2) as u8 } else { 1 },
        tinfo: if c.fmt == BIN { [0; 4] } else { [dw, 0, 0, 0] },
        comments: (0..n).map(|i| format!("line {i}").into_bytes()).collect(),
        tflags: 0,
        tinfos: vec![],
    };
    let trailer = ref_encode_trailer(&rec, b' ');
    let mut file = c.content.0.clone();
    // without the EOF byte the SAUCE information is the comment block and the record only
    file.extend_from_slice(if c.eof { &trailer } else { &trailer[1..] });
    let want = if c.eof { trailer.len() } else { trailer.len() - 1 };
    match SauceData::extract(&file) {
        Ok(Some(s)) => {
            if s.sauce_header_len != want {
                let key = if c.eof { header_len_key(n) } else { "split.header_len|no_eof_nothing_but_sauce".to_string() };
                // what a caller of the loader sees (the engine's panic hook is silent; the panic is reported through this message only)
                let outcome = match std::panic::catch_unwind(std::panic::AssertUnwindSafe(|| Buffer::from_bytes(&name, false, &file).map(|b| (b.get_width(), b.get_height())))) {
                    Ok(Ok((w, h))) => format!("Buffer::from_bytes loads a {w}x{h} picture"),
                    Ok(Err(e)) => format!("Buffer::from_bytes fails: {e}"),
                    Err(_) => "Buffer::from_bytes panics (content slice end underflows)".to_string(),
                };
                return Verdict::fail(key, format!("file of {} bytes ({} content bytes, {n} comment lines, EOF byte {}): sauce_header_len = {}, SAUCE information is {want} bytes; {outcome}", file.len(), c.content.len(), c.eof, s.sauce_header_len));
            }
        }
        Ok(None) => return Verdict::fail("split.not_recognised", format!("no SAUCE found in a file of {} bytes ending in a record", file.len())),
        Err(e) => return Verdict::fail("split.extract_error", format!("{n} comment lines, {} content bytes: {e}", c.content.len())),
    }
    let plain = match Buffer::from_bytes(&name, false, &c.content) {
        Ok(b) => b,
        Err(e) => return Verdict::discard(format!("content alone does not load: {e}")),
    };
    let loaded = match Buffer::from_bytes(&name, false, &file) {
        Ok(b) => b,
        Err(e) => return Verdict::fail(format!("differential.load_error|fmt={fmt}"), e.to_string()),
    };
    if let Some((size, d)) = picture_diff(&picture(&loaded), &picture(&plain), blank_rows_ok(loader, if c.fmt == BIN { None } else { Some(0) })) {
        return Verdict::fail(format!("differential.{}|fmt={fmt}", if size { "size" } else { "cells" }), d);
    }
    Verdict::pass(n > 0 || c.content.is_empty(), format!("{fmt}|{}|content={}", if c.eof { "eof" } else { "no_eof" }, c.content.len()))
}

// ---------------------------------------------------------------------------------------------------------------
// exhaustive grid of "meaningful" sizes for the writers whose loaded width comes from the record

const GRID_FMTS: [u8; 6] = [ANS, ASC, PCB, AVT, TND, BIN];

fn grid_case(i: u64) -> WCase {
    let i = i as usize;
    let h = GRID_H[i % GRID_H.len()];
    let w = GRID_W[(i / GRID_H.len()) % GRID_W.len()];
    let fmt = GRID_FMTS[i / (GRID_H.len() * GRID_W.len())];
    let meta = Meta { title: Bytes(b"size grid".to_vec()), comments: vec![Bytes(format!("{w}x{h}").into_bytes())], width: w, ..Meta::default() };
    let cells = vec![Cell { x: 0, y: 0, ch: b'A', fg: 7, bg: 0 }, Cell { x: u16::MAX, y: 0, ch: b'Z', fg: 7, bg: 0 }];
    // the file name dimension rides along: every spelling that keeps the format's loader, and for the text formats also an unregistered extension
    let kinds: &[u8] = if matches!(fmt, ANS | ASC | PCB | AVT) { &[0, 1, 2, 3, 8, 9, 4, 7] } else { &[0, 1, 2, 8, 9] };
    let name = NameSel { kind: kinds[i % kinds.len()], k: (i / kinds.len()) as u8 % 8 };
    WCase { fmt, meta, height: h, cells, history: 0, prev: None, doc: Doc::default(), name }
}

// ---------------------------------------------------------------------------------------------------------------

fn main() {
    // the harness builds SauceStrings through the engine's only constructor (String -> CP437); that needs the table to be injective
    assert_eq!(rev_table().len(), 256, "CP437_TO_UNICODE is not injective");

    let mut eng = Engine::new("C11");
    eng.rule(
        "meta_roundtrip/writer_split: documents of height {1..=3 | grid heights 1,2,24,25,26,43,50,60,100,200,350,400,480,600,1000 | 1..=1000} (capped to 6000 cells for bin/xb/tnd/adf/idf, to 8000 cells for 15 of 16 ans/asc/pcb/avt documents, 200 rows for idf, 3 for icy), width from {80,160,1..=1000,edges,grid widths}, \
         buffer history {fresh | loaded from a file saved with other metadata, then edited | set_sauce(older record, resize) then edited: size, ice mode, font 0, content replaced, record texts/LS/AR updated, record font_opt/use_ice left stale}, document state {font 0 = default | built-in font page 0..=42 | Viewdata 6x16 | custom 4..=16 x 1..=32, optionally renamed; buffer type CP437 | Unicode | Petscii | Atascii | Viewdata} \
         (adf/idf/xb refuse fonts they cannot embed: accepted), title/author/group = CP437 bytes 1..=255 of length 0..=35/20/20 (forced maximal and \
         maximal-1 lengths) plus trailing blanks/NULs, 0..=255 comment lines (forced 250..=255; blocks longer than 3 lines repeat a generated pattern of 1..=4 lines) of 0..=64 bytes without interior NUL, ice/letter-spacing/aspect-ratio, font 0 renamed to a SAUCE \
         font name or arbitrary <=22 CP437 bytes, saved by each SAUCE writer (ans asc avt pcb bin xb tnd adf idf icy) and loaded with Buffer::from_bytes; writer_split is biased to the loader defaults \
         so that the differential clause applies. reader_split: generated ans/asc/pcb/avt/bin content (text, line breaks, colour codes, high bytes) ending in SAUCE, COMNT, EOF, SAUCE00, whole fake records, \
         fake comment blocks, whole fake trailers (and the same markers in the middle of the content), or writer-made xb/tnd/adf/idf content, followed by a trailer from the harness' own SAUCE rev.5 encoder (default width / 0 / >1000, ice off, font empty or IBM VGA, \
         any TInfo2, any LS/AR incl. the invalid value 3); in half of the records the fields that carry nothing the property lists are arbitrary: FileSize {content length, 0, 1, length-1, length+1, length+2, 2^32-1, random}, \
         Date {valid, blanks, zeroes, impossible, NULs, random bytes}, TInfo3/4, reserved TFlags bits (whole TFlags where the variant has none), TInfoS behind its terminator (whole TInfoS where the variant has no FontName), \
         DataType/FileType any pair (width written where that variant keeps it; bin keeps BinaryText); loaded title/author/group/comment lines (and iCE/LS/AR for ASCII, ANSi, BinaryText records) must be the record's. size_grid: exhaustive widths {1,2,40,79,80,81,132,160,255,256,320,511,512,640,720,800,999,1000} x the grid heights x {ans,asc,pcb,avt,tnd,bin} through the metadata round trip. degenerate: all comment counts 0..=255 x content of 0,1,2 bytes x {ans,bin}, and the files that are nothing but [COMNT]+record without EOF. \
         Every part loads under a file name drawn from {c11.ext | C11.EXT | c11.eXt | alternative extension (ice, diz) | unregistered extension nfo txt mem x sauce an ansi | c11 | .ext | pic.ext.bak | pic.bak.ext | dir.xb/pic.ext}. \
         Non-trivial: >= 1 comment line, or a title/author/group/comment at its maximal length, or (reader_split) marker-like content tail; degenerate: >= 1 comment or empty content. Distinct by case hash.",
    );
    eng.assume("the SAUCE rev. 5 document in /repo/doc is the reference for record layout, trailer arithmetic and for what each DataType/FileType variant carries (ANSiFlags and FontName: ASCII, ANSi, ANSiMation, BinaryText; neither: PCBoard, Avatar, TundraDraw, XBin)");
    eng.assume("BinaryText carries only even widths up to 510 (width/2 in one byte): odd widths are expected back rounded down, a refusal to save wider documents is accepted");
    eng.assume("a font name longer than the 22 byte FontName field is expected back cut to 22 characters; for hand-built records only title/author/group/comment lines and the flags of ASCII, ANSi and BinaryText records are asserted, nothing about variants the crate's writers never produce");
    eng.assume("the file name selects the loader: every spelling of a registered or alternative extension (lower, UPPER, MiXed, pic.bak.ext, dir.xb/pic.ext) the format's own, anything else (unregistered extension, pic.ext.bak, no extension, .ext) the ANSI loader with its defaults; both loads of the differential clause use the same name; names that send a file to the ANSI loader are used for ans/asc/pcb/avt/bin files only; a name without extension is discarded while Buffer::from_bytes panics on it before reading any data (C02's subject)");
    eng.assume("font names are compared without trailing blanks; Date and FileSize are not part of the property and are not asserted");
    eng.assume("differential clause: widths equal and all common rows equal cell by cell; heights equal too, except that with an ANSI-family loader (ans, asc, pcb, avt and the ANSI fallback) and a record whose number of lines is not the default 25 the pictures may differ in entirely blank rows at the bottom (the record's height is a setting the loader may use, e.g. for form feed; the property conditions the equality on width, iCE and font only and does not say the height is ignored). Rows that are not blank - e.g. trailer bytes drawn as content - still fail");
    eng.assume("a file of another format sent to the ANSI loader by its name (Avatar / PCBoard / ASCII bytes as c11.nfo) is arbitrary input to a terminal emulation whose screen height comes from the record (an Avatar attribute byte 0x1B + 'M' is a reverse index there): for those the differential clause is claimed only when the record's number of lines is the default 25 as well (or the variant states none); the generators put most such cases at 25 lines");
    eng.assume("'picture' = buffer size and, per cell, character, colour indices, attribute bits, font page and the palette RGB of both colours");
    eng.assume("content that by itself ends in a well-formed record is ambiguous for Buffer::from_bytes: its reference picture is taken from the format loader called without SAUCE");

    eng.generated_with_class(PartCfg::new("meta_roundtrip", 200_000, 3_600_000), || wcases(false), check_meta, |c: &WCase| format!("fmt={}", ext(c.fmt)));
    eng.generated_with_class(PartCfg::new("writer_split", 70_000, 1_200_000), || wcases(true), check_writer_split, |c: &WCase| format!("fmt={}", ext(c.fmt)));
    eng.generated_with_class(PartCfg::new("reader_split", 160_000, 2_400_000), rcases, check_reader_split, |c: &RCase| format!("fmt={}", ext(c.fmt)));
    eng.enumerated(PartCfg::new("degenerate", 0, 0).exhaustive(true), 3 * 2048, dcase, check_degenerate);
    eng.enumerated(PartCfg::new("size_grid", 0, 0).exhaustive(true), (GRID_FMTS.len() * GRID_W.len() * GRID_H.len()) as u64, grid_case, check_meta);
    eng.run();
}
