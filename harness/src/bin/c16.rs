//! C16 — Palette indices are stable and palette files round-trip.
//!
//! (a) `ops`        model-based: insert_color / insert_color_rgb / set_color / set_color_rgb / lookups on palettes of
//!                  0..=300 colours against a `Vec<(u8,u8,u8)>` model;
//! (a') `parser_ops` the same claims through the ANSI parser: true-colour / 256-colour SGR (and CTerm's CSI..t) add colours,
//!                  OSC 4 redefines entries; one parser + terminal buffer + caret per case;
//! (b) `files`      export_palette(f) -> load_palette(f) gives the same RGB sequence, f in {Hex, Pal, Gpl, Ice, Txt};
//! (c) `sixbit_vga` all 64^3 six-bit colours through from_63 / as_vec_63 (XBin, IDF),
//!     `sixbit_ega` all 64^3 six-bit colours through from_ega_data / to_ega_data (ADF) — exhaustive.
use icy_engine::{from_ega_data, to_ega_data, Color, Palette, PaletteFormat, TextPane};
use icyv::proptest::prelude::*;
use icyv::util::pick;
use icyv::{Engine, PartCfg, Verdict};
use serde::{Deserialize, Serialize};

type Rgb = (u8, u8, u8);

/// the property quantifies over palettes of 0..=300 colours; operations that would grow a palette beyond that are skipped
const MAX_COLOURS: usize = 300;
/// set / lookup indices reach this far past the current end
const PAST_END: usize = 4;

fn rgbs(p: &Palette) -> Vec<Rgb> {
    p.color_iter().map(|c| c.get_rgb()).collect()
}

// ------------------------------------------------------------------------------------------------------------
// (a) operation sequences
// ------------------------------------------------------------------------------------------------------------

#[derive(Clone, Debug, Hash, Serialize, Deserialize)]
enum Init {
    /// Palette::new()
    Empty,
    /// Palette::dos_default()
    Dos,
    /// Palette::from_slice(..)
    Colors(Vec<Rgb>),
}

#[derive(Clone, Debug, Hash, Serialize, Deserialize)]
enum Op {
    /// insert_color(Color) with an arbitrary colour (present or not); `named` gives the Color a name (names do not take part in equality)
    Insert { rgb: Rgb, named: bool },
    /// insert_color_rgb with an arbitrary colour
    InsertRgb { rgb: Rgb },
    /// insert the colour found at index pick(sel, len) of the current palette (certainly present); no-op on an empty palette
    InsertPresent { sel: u16, via_rgb: bool, named: bool },
    /// set_color / set_color_rgb at index pick(sel, len + PAST_END)
    Set { sel: u16, rgb: Rgb, via_rgb: bool },
    /// set entry pick(sel, len) to the colour of entry pick(from, len): creates duplicate colours
    SetToPresent { sel: u16, from: u16 },
    /// get_rgb / get_color at index pick(sel, len + PAST_END)
    Lookup { sel: u16 },
    /// insert the colour at index pick(sel, len) (certainly present) and remember that slot and colour as "marked"
    Mark { sel: u16, via_rgb: bool },
    /// insert the marked colour again (present or not by now)
    InsertMarked { via_rgb: bool },
    /// insert a colour that some mutator displaced from its slot earlier in the sequence (pick(sel, displaced.len()))
    InsertFormer { sel: u16, via_rgb: bool },
    /// any other public mutating method of Palette; its own effect is adopted, index stability is asserted
    Mutate { m: Mutator, at: Slot },
}

/// which slot a slot-taking mutator works on
#[derive(Clone, Debug, Hash, Serialize, Deserialize)]
enum Slot {
    /// pick(sel, len + PAST_END)
    Sel(u16),
    /// the marked slot (slot 0 if nothing is marked)
    Marked,
}

/// Every `pub fn ..(&mut self ..)` of Palette besides insert_color / insert_color_rgb, the public fields, Clone, and the
/// export -> load route. set_color / set_color_rgb also exist as Op::Set (where the written value is asserted).
#[derive(Clone, Debug, Hash, Serialize, Deserialize)]
enum Mutator {
    /// set_color_hsl(slot, h/255, s/255, l/255)
    SetHsl { h: u8, s: u8, l: u8 },
    /// set_color / set_color_rgb(slot, rgb)
    Set { rgb: Rgb, via_rgb: bool },
    /// resize(slot): a shrink drops the slot and everything behind it, a grow appends
    Resize,
    /// clear()
    Clear,
    /// push(Color)
    Push { rgb: Rgb, named: bool },
    /// fill_to_16()
    FillTo16,
    /// get_checksum() (takes &mut self: updates a cache)
    Checksum,
    /// title / author / description assigned through the public fields
    Meta,
    /// continue on palette.clone()
    CloneSwap,
    /// continue on load_palette(Hex, export_palette(Hex))
    Reload,
}

#[derive(Clone, Debug, Hash, Serialize, Deserialize)]
struct OpsCase {
    init: Init,
    ops: Vec<Op>,
}

/// the sixteen DOS text-mode colours (IBM CGA/VGA defaults), written down independently of the engine's table
const DOS16: [Rgb; 16] = [
    (0x00, 0x00, 0x00),
    (0x00, 0x00, 0xAA),
    (0x00, 0xAA, 0x00),
    (0x00, 0xAA, 0xAA),
    (0xAA, 0x00, 0x00),
    (0xAA, 0x00, 0xAA),
    (0xAA, 0x55, 0x00),
    (0xAA, 0xAA, 0xAA),
    (0x55, 0x55, 0x55),
    (0x55, 0x55, 0xFF),
    (0x55, 0xFF, 0x55),
    (0x55, 0xFF, 0xFF),
    (0xFF, 0x55, 0x55),
    (0xFF, 0x55, 0xFF),
    (0xFF, 0xFF, 0x55),
    (0xFF, 0xFF, 0xFF),
];

fn comp() -> impl Strategy<Value = u8> {
    // four levels three times out of five: 64 likely colours, so random inserts do hit existing entries
    prop_oneof![3 => prop::sample::select(vec![0u8, 0x55, 0xAA, 0xFF]), 2 => any::<u8>()]
}
fn rgb() -> impl Strategy<Value = Rgb> {
    (comp(), comp(), comp())
}

fn op() -> impl Strategy<Value = Op> {
    prop_oneof![
        3 => (rgb(), any::<bool>()).prop_map(|(rgb, named)| Op::Insert { rgb, named }),
        2 => rgb().prop_map(|rgb| Op::InsertRgb { rgb }),
        3 => (any::<u16>(), any::<bool>(), any::<bool>()).prop_map(|(sel, via_rgb, named)| Op::InsertPresent { sel, via_rgb, named }),
        2 => (any::<u16>(), rgb(), any::<bool>()).prop_map(|(sel, rgb, via_rgb)| Op::Set { sel, rgb, via_rgb }),
        1 => (any::<u16>(), any::<u16>()).prop_map(|(sel, from)| Op::SetToPresent { sel, from }),
        2 => any::<u16>().prop_map(|sel| Op::Lookup { sel }),
        1 => (any::<u16>(), any::<bool>()).prop_map(|(sel, via_rgb)| Op::Mark { sel, via_rgb }),
        1 => any::<bool>().prop_map(|via_rgb| Op::InsertMarked { via_rgb }),
        2 => (any::<u16>(), any::<bool>()).prop_map(|(sel, via_rgb)| Op::InsertFormer { sel, via_rgb }),
        3 => (mutator(), prop_oneof![2 => any::<u16>().prop_map(Slot::Sel), 1 => Just(Slot::Marked)]).prop_map(|(m, at)| Op::Mutate { m, at }),
    ]
}

fn mutator() -> impl Strategy<Value = Mutator> {
    prop_oneof![
        4 => (any::<u8>(), prop_oneof![1 => Just(0u8), 3 => any::<u8>()], prop_oneof![1 => Just(0u8), 4 => any::<u8>()]).prop_map(|(h, s, l)| Mutator::SetHsl { h, s, l }),
        2 => (rgb(), any::<bool>()).prop_map(|(rgb, via_rgb)| Mutator::Set { rgb, via_rgb }),
        2 => Just(Mutator::Resize),
        1 => Just(Mutator::Clear),
        2 => (rgb(), any::<bool>()).prop_map(|(rgb, named)| Mutator::Push { rgb, named }),
        1 => Just(Mutator::FillTo16),
        1 => Just(Mutator::Checksum),
        1 => Just(Mutator::Meta),
        1 => Just(Mutator::CloneSwap),
        1 => Just(Mutator::Reload),
    ]
}

/// the cache-warm-up pattern: colour X is inserted (so any lookup structure knows it), an unrelated insert follows, a mutator
/// rewrites X's slot, another unrelated insert, then X is inserted again
fn warm_pattern() -> impl Strategy<Value = Vec<Op>> {
    (any::<u16>(), any::<bool>(), rgb(), mutator(), rgb(), any::<bool>(), any::<bool>()).prop_map(|(sel, v1, r1, m, r2, v2, again_twice)| {
        let mut v = vec![
            Op::Mark { sel, via_rgb: v1 },
            Op::InsertRgb { rgb: r1 },
            Op::Mutate { m, at: Slot::Marked },
            Op::Insert { rgb: r2, named: false },
            Op::InsertMarked { via_rgb: v2 },
        ];
        if again_twice {
            v.push(Op::InsertMarked { via_rgb: !v2 });
        }
        v
    })
}

fn ops_case() -> impl Strategy<Value = OpsCase> {
    let init = prop_oneof![
        1 => Just(Init::Empty),
        1 => Just(Init::Dos),
        4 => prop::collection::vec(rgb(), 0..=40).prop_map(Init::Colors),
        2 => prop::collection::vec(rgb(), 0..=MAX_COLOURS).prop_map(Init::Colors),
    ];
    // groups: single operations, now and then the warm-up pattern as a block (random operations around it)
    let group = prop_oneof![12 => op().prop_map(|o| vec![o]), 1 => warm_pattern()];
    (init, prop::collection::vec(group, 1..=20)).prop_map(|(init, groups)| {
        let mut ops: Vec<Op> = groups.into_iter().flatten().collect();
        ops.truncate(30);
        OpsCase { init, ops }
    })
}

/// names do not take part in a colour's identity: every named colour gets another name (a per-thread counter that every case resets, so a case stays a pure
/// function of its input)
thread_local! { static NAME_CTR: std::cell::Cell<u32> = const { std::cell::Cell::new(0) }; }
fn mk_color(rgb: Rgb, named: bool) -> Color {
    let mut c = Color::new(rgb.0, rgb.1, rgb.2);
    if named {
        let k = NAME_CTR.with(|n| {
            let v = n.get();
            n.set(v.wrapping_add(1));
            v
        });
        c.name = Some(["n", "m", "accent", ""][k as usize % 4].to_string());
    }
    c
}

/// every index valid before the operation (other than `except`) must still resolve to its old value
fn earlier_changed(pal: &Palette, old: &[Rgb], except: Option<usize>) -> Option<String> {
    for (i, want) in old.iter().enumerate() {
        if Some(i) == except {
            continue;
        }
        let got = pal.get_rgb(i as u32);
        if got != *want {
            return Some(format!("index {i} resolved to {want:?} before the operation and to {got:?} after it"));
        }
    }
    None
}

fn check_ops(c: &OpsCase) -> Verdict {
    NAME_CTR.with(|n| n.set(0));
    let (mut pal, mut model): (Palette, Vec<Rgb>) = match &c.init {
        Init::Empty => (Palette::new(), Vec::new()),
        Init::Dos => (Palette::dos_default(), DOS16.to_vec()),
        Init::Colors(v) => {
            let cols: Vec<Color> = v.iter().map(|c| Color::new(c.0, c.1, c.2)).collect();
            (Palette::from_slice(&cols), v.clone())
        }
    };
    if pal.len() != model.len() || rgbs(&pal) != model {
        return Verdict::fail("init.palette_differs_from_given_colours", format!("initial palette {:?} vs model {:?}", rgbs(&pal), model));
    }
    let (mut pushes, mut hits, mut dup_hits, mut skipped) = (0u32, 0u32, 0u32, 0u32);
    // the marked slot and colour; colours displaced from their slot by a mutator; inserts of a colour after its slot was rewritten
    let mut marked: Option<(usize, Rgb)> = None;
    let mut displaced: Vec<Rgb> = Vec::new();
    let (mut mutations, mut reinserts_after_mutation) = (0u32, 0u32);

    for (n, op) in c.ops.iter().enumerate() {
        let old_len = model.len();
        // ---- the three insert operations share one oracle
        let ins: Option<(Rgb, bool, bool)> = match op {
            Op::Insert { rgb, named } => Some((*rgb, false, *named)),
            Op::InsertRgb { rgb } => Some((*rgb, true, false)),
            Op::InsertPresent { sel, via_rgb, named } => {
                if old_len == 0 {
                    skipped += 1;
                    continue;
                }
                Some((model[pick(*sel, old_len)], *via_rgb, *named))
            }
            Op::Mark { sel, via_rgb } => {
                if old_len == 0 {
                    skipped += 1;
                    continue;
                }
                let slot = pick(*sel, old_len);
                marked = Some((slot, model[slot]));
                Some((model[slot], *via_rgb, false))
            }
            Op::InsertMarked { via_rgb } => match marked {
                Some((_, rgb)) => Some((rgb, *via_rgb, false)),
                None => {
                    skipped += 1;
                    continue;
                }
            },
            Op::InsertFormer { sel, via_rgb } => {
                if displaced.is_empty() {
                    skipped += 1;
                    continue;
                }
                Some((displaced[pick(*sel, displaced.len())], *via_rgb, false))
            }
            _ => None,
        };
        if let Some((rgb, via_rgb, named)) = ins {
            if displaced.contains(&rgb) {
                reinserts_after_mutation += 1;
            }
            let first = model.iter().position(|m| *m == rgb);
            if first.is_none() && old_len >= MAX_COLOURS {
                skipped += 1;
                continue;
            }
            let idx = if via_rgb { pal.insert_color_rgb(rgb.0, rgb.1, rgb.2) } else { pal.insert_color(mk_color(rgb, named)) } as usize;
            let kind = if first.is_some() { "insert_present" } else { "insert_new" };
            let api = if via_rgb { "insert_color_rgb" } else { "insert_color" };
            let got = pal.get_rgb(idx as u32);
            if idx >= pal.len() || got != rgb {
                return Verdict::fail(
                    format!("{kind}.returned_index_does_not_resolve"),
                    format!("op {n}: {api}({rgb:?}) returned {idx}, which resolves to {got:?} (palette length {})", pal.len()),
                );
            }
            if let Some(m) = earlier_changed(&pal, &model, None) {
                return Verdict::fail(format!("{kind}.earlier_index_changed"), format!("op {n}: {api}({rgb:?}) returned {idx}; {m}"));
            }
            match first {
                Some(p) => {
                    if pal.len() != old_len {
                        return Verdict::fail(
                            "insert_present.palette_grew",
                            format!("op {n}: {api}({rgb:?}) of a colour present at index {p}: length {old_len} -> {}", pal.len()),
                        );
                    }
                    if idx != p {
                        return Verdict::fail(
                            "insert_present.not_first_existing_index",
                            format!("op {n}: {api}({rgb:?}) returned {idx}; the colour is first present at index {p}"),
                        );
                    }
                    hits += 1;
                    if model.iter().filter(|m| **m == rgb).count() > 1 {
                        dup_hits += 1;
                    }
                }
                None => {
                    if idx != old_len || pal.len() != old_len + 1 {
                        return Verdict::fail(
                            "insert_new.not_appended",
                            format!("op {n}: {api}({rgb:?}) of an absent colour returned {idx}, length {old_len} -> {}", pal.len()),
                        );
                    }
                    model.push(rgb);
                    pushes += 1;
                }
            }
            continue;
        }
        let failure: Option<Verdict> = match op {
            Op::Set { sel, rgb, via_rgb } => {
                let idx = pick(*sel, old_len + PAST_END);
                if idx >= MAX_COLOURS {
                    skipped += 1;
                    continue;
                }
                if *via_rgb {
                    pal.set_color_rgb(idx as u32, rgb.0, rgb.1, rgb.2);
                } else {
                    pal.set_color(idx as u32, mk_color(*rgb, false));
                }
                set_oracle(&pal, &mut model, idx, *rgb, n, if *via_rgb { "set_color_rgb" } else { "set_color" })
            }
            Op::SetToPresent { sel, from } => {
                if old_len == 0 {
                    skipped += 1;
                    continue;
                }
                let idx = pick(*sel, old_len);
                let rgb = model[pick(*from, old_len)];
                pal.set_color(idx as u32, mk_color(rgb, false));
                set_oracle(&pal, &mut model, idx, rgb, n, "set_color")
            }
            Op::Lookup { sel } => {
                let idx = pick(*sel, old_len + PAST_END);
                let a = pal.get_rgb(idx as u32);
                let b = pal.get_color(idx as u32).get_rgb();
                if idx < old_len && (a != model[idx] || b != model[idx]) {
                    Some(Verdict::fail(
                        "lookup.valid_index_mismatch",
                        format!("op {n}: get_rgb({idx}) = {a:?}, get_color({idx}) = {b:?}, model has {:?}", model[idx]),
                    ))
                } else {
                    // an index past the end is not a valid index: nothing is claimed about its value (only that the call returns)
                    None
                }
            }
            Op::Mutate { m, at } => {
                let slot = match at {
                    Slot::Sel(sel) => pick(*sel, old_len + PAST_END),
                    Slot::Marked => marked.map_or(0, |(s, _)| s),
                };
                if slot >= MAX_COLOURS || (matches!(m, Mutator::Push { .. }) && old_len >= MAX_COLOURS) {
                    skipped += 1;
                    continue;
                }
                mutations += 1;
                // what the operation rewrites by its own contract: `rewritten` slots may change, `may_shrink_to` is the length it may cut to
                let (name, rewritten, may_shrink_to): (&str, Option<usize>, Option<usize>) = match m {
                    Mutator::SetHsl { h, s, l } => {
                        pal.set_color_hsl(slot as u32, *h as f32 / 255.0, *s as f32 / 255.0, *l as f32 / 255.0);
                        ("set_color_hsl", Some(slot), None)
                    }
                    Mutator::Set { rgb, via_rgb } => {
                        if *via_rgb {
                            pal.set_color_rgb(slot as u32, rgb.0, rgb.1, rgb.2);
                        } else {
                            pal.set_color(slot as u32, mk_color(*rgb, false));
                        }
                        ("set_color", Some(slot), None)
                    }
                    Mutator::Resize => {
                        pal.resize(slot);
                        ("resize", None, Some(slot))
                    }
                    Mutator::Clear => {
                        pal.clear();
                        ("clear", None, Some(0))
                    }
                    Mutator::Push { rgb, named } => {
                        pal.push(mk_color(*rgb, *named));
                        ("push", None, None)
                    }
                    Mutator::FillTo16 => {
                        pal.fill_to_16();
                        ("fill_to_16", None, None)
                    }
                    Mutator::Checksum => {
                        let _ = pal.get_checksum();
                        ("get_checksum", None, None)
                    }
                    Mutator::Meta => {
                        pal.title = format!("t{n}");
                        pal.author = "a".into();
                        pal.description = String::new();
                        ("meta_fields", None, None)
                    }
                    Mutator::CloneSwap => {
                        pal = pal.clone();
                        ("clone", None, None)
                    }
                    Mutator::Reload => {
                        let bytes = pal.export_palette(&PaletteFormat::Hex);
                        match Palette::load_palette(&PaletteFormat::Hex, &bytes) {
                            Ok(p) => pal = p,
                            Err(e) => return Verdict::fail("reload.load_error", format!("op {n}: load_palette(Hex) rejects the Hex export: {e}")),
                        }
                        ("reload_hex", None, None)
                    }
                };
                let keep = may_shrink_to.map_or(old_len, |k| k.min(old_len));
                let mut failure = None;
                if pal.len() < keep {
                    failure = Some(Verdict::fail(
                        format!("{name}.valid_indices_removed"),
                        format!("op {n}: {name} (slot {slot}) on {old_len} colours left {}; indices below {keep} were to stay valid", pal.len()),
                    ));
                } else if let Some(msg) = earlier_changed(&pal, &model[..keep], rewritten) {
                    failure = Some(Verdict::fail(format!("{name}.other_index_changed"), format!("op {n}: {name} (slot {slot}); {msg}")));
                }
                if failure.is_none() {
                    // the operation's own effect is adopted: colours that lost their slot are remembered for later re-insertion
                    let now = rgbs(&pal);
                    for (i, old) in model.iter().enumerate() {
                        if now.get(i) != Some(old) && !now.contains(old) && !displaced.contains(old) {
                            if displaced.len() >= 16 {
                                displaced.remove(0);
                            }
                            displaced.push(*old);
                        }
                    }
                    model = now;
                }
                failure
            }
            _ => unreachable!(),
        };
        if let Some(v) = failure {
            return v;
        }
        // whole-palette agreement after every non-insert operation
        if let Some(v) = diverged(&pal, &model, n) {
            return v;
        }
    }
    let _ = skipped; // operations outside the 0..=300 domain or without a target; not part of the verdict
    let _ = mutations;
    if reinserts_after_mutation > 0 && pushes + hits > 1 {
        return Verdict::pass(pushes > 0 && hits > 0, "reinsert_of_a_colour_displaced_by_a_mutator");
    }
    let class = match (pushes > 0, hits > 0, dup_hits > 0) {
        (true, true, true) => "push+hit+hit_on_duplicate",
        (true, true, false) => "push+hit",
        (true, false, _) => "push_only",
        (false, true, true) => "hit_only+hit_on_duplicate",
        (false, true, false) => "hit_only",
        (false, false, _) => "no_effective_insert",
    };
    Verdict::pass(pushes > 0 && hits > 0, class)
}

/// oracle of a set operation; brings the model up to date. Entries created between the old end and `idx` are not
/// claimed to have a particular value (the statement is silent); the model adopts what the engine reports for them.
fn set_oracle(pal: &Palette, model: &mut Vec<Rgb>, idx: usize, rgb: Rgb, n: usize, api: &str) -> Option<Verdict> {
    let old_len = model.len();
    let want_len = old_len.max(idx + 1);
    if pal.len() != want_len {
        return Some(Verdict::fail("set.length", format!("op {n}: {api}({idx}, {rgb:?}) on {old_len} colours left {} colours, expected {want_len}", pal.len())));
    }
    let got = pal.get_rgb(idx as u32);
    if got != rgb {
        return Some(Verdict::fail("set.index_does_not_resolve", format!("op {n}: {api}({idx}, {rgb:?}), then get_rgb({idx}) = {got:?}")));
    }
    if let Some(m) = earlier_changed(pal, model, Some(idx)) {
        return Some(Verdict::fail("set.other_index_changed", format!("op {n}: {api}({idx}, {rgb:?}); {m}")));
    }
    for i in old_len..want_len {
        model.push(pal.get_rgb(i as u32));
    }
    model[idx] = rgb;
    None // (colours displaced by Op::Set are not tracked: Mutator::Set covers that route)
}

/// whole-palette agreement after every non-insert operation (cheap: <= 300 entries)
fn diverged(pal: &Palette, model: &[Rgb], n: usize) -> Option<Verdict> {
    if pal.len() != model.len() {
        return Some(Verdict::fail("model.length_diverged", format!("after op {n}: palette has {} colours, model {}", pal.len(), model.len())));
    }
    for (i, m) in model.iter().enumerate() {
        let got = pal.get_rgb(i as u32);
        if got != *m {
            return Some(Verdict::fail("model.colour_diverged", format!("after op {n}: index {i} resolves to {got:?}, model has {m:?}")));
        }
    }
    None
}

// ------------------------------------------------------------------------------------------------------------
// (a') the same claims through the ANSI parser
// ------------------------------------------------------------------------------------------------------------

/// which palette entry an OSC 4 item names
#[derive(Clone, Debug, Hash, Serialize, Deserialize)]
enum Target {
    /// the index most recently handed out by a colour-adding sequence (entry 0 if none yet)
    LastHandedOut,
    /// an index handed out earlier in the session, not necessarily the latest: pick(sel, handed.len()) (entry 0 if none yet)
    HandedEarlier(u16),
    /// entry pick(sel, len)
    Existing(u16),
    /// one of the sixteen text colours
    Low(u8),
    /// len + d: a new entry (d = 0..=3)
    New(u8),
    /// any entry 0..=255
    Any(u8),
}

#[derive(Clone, Debug, Hash, Serialize, Deserialize)]
enum POp {
    /// CSI 38;2;r;g;b m  /  CSI 48;2;r;g;b m
    True { bg: bool, c: Rgb },
    /// CSI 38;2;..;48;2;.. m in one sequence
    TruePair { fg: Rgb, bg: Rgb },
    /// CTerm: CSI 1;r;g;b t (foreground) / CSI 0;r;g;b t (background)
    CTerm { bg: bool, c: Rgb },
    /// CSI 38;5;n m / CSI 48;5;n m
    Idx256 { bg: bool, n: u8 },
    /// CSI 30..37 / 40..47 / 90..97 / 100..107 m
    Basic { bg: bool, bright: bool, n: u8 },
    /// the RGB of the latest true-colour request once more
    Again { bg: bool },
    /// OSC 4 ; k ; rgb:rr/gg/bb [; k ; rgb:rr/gg/bb ...] ST
    Osc { entries: Vec<(Target, Rgb)> },
    /// ESC c
    Ris,
    /// a letter
    Print(u8),
}

#[derive(Clone, Debug, Hash, Serialize, Deserialize)]
struct ParserCase {
    ops: Vec<POp>,
}

/// few colours, so that repeats are frequent; two of them are DOS text colours, one is xterm colour 1
const POOL: [Rgb; 8] = [(1, 2, 3), (10, 20, 30), (200, 100, 50), (0x5f, 0x87, 0xaf), (0x80, 0, 0), (0xAA, 0, 0), (0xFF, 0xFF, 0xFF), (0, 0, 0)];

fn pool_rgb() -> impl Strategy<Value = Rgb> {
    prop_oneof![8 => prop::sample::select(POOL.to_vec()), 1 => any::<Rgb>()]
}

fn pop() -> impl Strategy<Value = POp> {
    let target = prop_oneof![
        4 => Just(Target::LastHandedOut),
        2 => any::<u16>().prop_map(Target::HandedEarlier),
        2 => any::<u16>().prop_map(Target::Existing),
        2 => (0u8..16).prop_map(Target::Low),
        2 => (0u8..4).prop_map(Target::New),
        1 => any::<u8>().prop_map(Target::Any),
    ];
    prop_oneof![
        6 => (any::<bool>(), pool_rgb()).prop_map(|(bg, c)| POp::True { bg, c }),
        1 => (pool_rgb(), pool_rgb()).prop_map(|(fg, bg)| POp::TruePair { fg, bg }),
        1 => (any::<bool>(), pool_rgb()).prop_map(|(bg, c)| POp::CTerm { bg, c }),
        2 => (any::<bool>(), prop_oneof![2 => 0u8..20, 1 => any::<u8>()]).prop_map(|(bg, n)| POp::Idx256 { bg, n }),
        2 => (any::<bool>(), any::<bool>(), 0u8..8).prop_map(|(bg, bright, n)| POp::Basic { bg, bright, n }),
        3 => any::<bool>().prop_map(|bg| POp::Again { bg }),
        5 => prop::collection::vec((target, pool_rgb()), 1..=3).prop_map(|entries| POp::Osc { entries }),
        1 => Just(POp::Ris),
        3 => (0u8..26).prop_map(POp::Print),
    ]
}

fn parser_case() -> impl Strategy<Value = ParserCase> {
    prop::collection::vec(pop(), 1..=40).prop_map(|ops| ParserCase { ops })
}

/// xterm's 256-colour table, from its definition: 16 system colours, a 6x6x6 cube with levels 0,95,135,175,215,255, 24 greys 8+10k
fn xterm256(n: u8) -> Rgb {
    const SYS: [Rgb; 16] = [
        (0, 0, 0),
        (128, 0, 0),
        (0, 128, 0),
        (128, 128, 0),
        (0, 0, 128),
        (128, 0, 128),
        (0, 128, 128),
        (192, 192, 192),
        (128, 128, 128),
        (255, 0, 0),
        (0, 255, 0),
        (255, 255, 0),
        (0, 0, 255),
        (255, 0, 255),
        (0, 255, 255),
        (255, 255, 255),
    ];
    const LV: [u8; 6] = [0, 95, 135, 175, 215, 255];
    match n {
        0..=15 => SYS[n as usize],
        16..=231 => {
            let i = (n - 16) as usize;
            (LV[i / 36], LV[(i / 6) % 6], LV[i % 6])
        }
        _ => {
            let v = 8 + 10 * (n - 232);
            (v, v, v)
        }
    }
}

fn check_parser(c: &ParserCase) -> Verdict {
    let (mut buf, mut caret) = icyv::stream::make_terminal(80, 25, 0);
    let mut parser = icyv::stream::make_parser(0);
    // the model is the palette as last verified; the initial palette of a terminal buffer is adopted as it is
    let mut model: Vec<Rgb> = rgbs(&buf.palette);
    // RGB the current foreground / background index was handed out for (None: chosen by slot number, reset, or its entry redefined)
    let mut want: [Option<Rgb>; 2] = [None, None];
    let mut last_true: Rgb = POOL[0];
    let mut last_handed: usize = 0;
    // rgb -> index it was last handed out at; and the colours whose handed-out entry was redefined afterwards
    let mut handed: Vec<(Rgb, usize)> = Vec::new();
    let mut redefined: Vec<Rgb> = Vec::new();
    let (mut appended, mut reused, mut oscs, mut rerequests, mut prints) = (0u32, 0u32, 0u32, 0u32, 0u32);

    for (n, op) in c.ops.iter().enumerate() {
        // ---- render
        let mut requests: Vec<(usize, Rgb)> = Vec::new(); // (plane, rgb) in the order the sequence asks for them
        let mut listed: Vec<usize> = Vec::new();
        let (kind, bytes): (&str, String) = match op {
            POp::True { bg, c } => {
                requests.push((*bg as usize, *c));
                last_true = *c;
                ("sgr_truecolour", format!("\x1b[{};2;{};{};{}m", if *bg { 48 } else { 38 }, c.0, c.1, c.2))
            }
            POp::TruePair { fg, bg } => {
                requests.push((0, *fg));
                requests.push((1, *bg));
                last_true = *bg;
                ("sgr_truecolour", format!("\x1b[38;2;{};{};{};48;2;{};{};{}m", fg.0, fg.1, fg.2, bg.0, bg.1, bg.2))
            }
            POp::Again { bg } => {
                let c = last_true;
                requests.push((*bg as usize, c));
                ("sgr_truecolour", format!("\x1b[{};2;{};{};{}m", if *bg { 48 } else { 38 }, c.0, c.1, c.2))
            }
            POp::CTerm { bg, c } => {
                requests.push((*bg as usize, *c));
                ("cterm_24bit", format!("\x1b[{};{};{};{}t", if *bg { 0 } else { 1 }, c.0, c.1, c.2))
            }
            POp::Idx256 { bg, n } => {
                requests.push((*bg as usize, xterm256(*n)));
                ("sgr_256", format!("\x1b[{};5;{}m", if *bg { 48 } else { 38 }, n))
            }
            POp::Basic { bg, bright, n } => {
                want[*bg as usize] = None;
                let base = match (*bg, *bright) {
                    (false, false) => 30,
                    (true, false) => 40,
                    (false, true) => 90,
                    (true, true) => 100,
                };
                ("sgr_basic", format!("\x1b[{}m", base + (*n as u32 & 7)))
            }
            POp::Osc { entries } => {
                let mut s = String::from("\x1b]4");
                for (t, rgb) in entries {
                    let k = match t {
                        Target::LastHandedOut => last_handed,
                        Target::HandedEarlier(sel) => {
                            if handed.is_empty() {
                                0
                            } else {
                                handed[pick(*sel, handed.len())].1
                            }
                        }
                        Target::Existing(sel) => pick(*sel, model.len()),
                        Target::Low(k) => *k as usize & 15,
                        Target::New(d) => model.len() + *d as usize,
                        Target::Any(k) => *k as usize,
                    }
                    .min(255);
                    listed.push(k);
                    s.push_str(&format!(";{k};rgb:{:02x}/{:02x}/{:02x}", rgb.0, rgb.1, rgb.2));
                }
                s.push_str("\x1b\\");
                ("osc4", s)
            }
            POp::Ris => ("ris", "\x1bc".to_string()),
            POp::Print(l) => ("print", ((b'a' + l % 26) as char).to_string()),
        };
        let pos = caret.get_position();
        for ch in bytes.chars() {
            if let Err(e) = parser.print_char(&mut buf, 0, &mut caret, ch) {
                return Verdict::discard(format!("parser rejects {kind}: {e}"));
            }
        }
        let now = rgbs(&buf.palette);
        let attr = caret.get_attribute();
        let idx = [attr.get_foreground() as usize, attr.get_background() as usize];

        // ---- every index valid before the sequence still resolves to its value, unless an OSC 4 named that very index
        if !matches!(op, POp::Ris) {
            for (i, was) in model.iter().enumerate() {
                if listed.contains(&i) {
                    continue;
                }
                if now.get(i) != Some(was) {
                    return Verdict::fail(
                        format!("parser.{kind}.{}", if listed.is_empty() { "earlier_index_changed" } else { "unlisted_index_changed" }),
                        format!("op {n} {:?} ({:?}): index {i} resolved to {was:?} before and to {:?} after", op, bytes, now.get(i)),
                    );
                }
            }
        }

        match op {
            POp::Osc { .. } => {
                oscs += 1;
                for p in 0..2 {
                    if listed.contains(&idx[p]) {
                        want[p] = None;
                    }
                }
                for (rgb, k) in &handed {
                    if listed.contains(k) && now.get(*k) != Some(rgb) && !redefined.contains(rgb) {
                        redefined.push(*rgb);
                    }
                }
            }
            POp::Ris => {
                // a reset may legitimately restore anything: nothing is claimed across it
                want = [None, None];
                handed.clear();
                redefined.clear();
            }
            POp::Print(_) => {
                prints += 1;
                if now.len() != model.len() {
                    return Verdict::fail("parser.print.palette_grew", format!("op {n}: printing a letter changed the palette length {} -> {}", model.len(), now.len()));
                }
                let cell = buf.get_char(pos).attribute;
                let cidx = [cell.get_foreground(), cell.get_background()];
                for p in 0..2 {
                    if let Some(rgb) = want[p] {
                        let got = buf.palette.get_rgb(cidx[p]);
                        if got != rgb {
                            return Verdict::fail(
                                format!("parser.cell.{}_does_not_resolve", if p == 0 { "foreground" } else { "background" }),
                                format!("op {n}: cell printed at {pos:?} stores index {} = {got:?}; the colour selected for it was {rgb:?}", cidx[p]),
                            );
                        }
                    }
                }
            }
            _ => {}
        }

        // ---- colour-adding sequences: the handed-out index resolves to the requested RGB; a present colour is not added again
        if !requests.is_empty() {
            let mut sim = model.clone();
            let mut expect: [Option<(Rgb, usize, bool)>; 2] = [None, None];
            for (p, rgb) in &requests {
                if redefined.contains(rgb) {
                    rerequests += 1;
                    redefined.retain(|r| r != rgb);
                }
                let present = sim.iter().position(|m| m == rgb);
                let at = match present {
                    Some(i) => i,
                    None => {
                        sim.push(*rgb);
                        sim.len() - 1
                    }
                };
                if present.is_some() {
                    reused += 1;
                } else {
                    appended += 1;
                }
                expect[*p] = Some((*rgb, at, present.is_some()));
            }
            for p in 0..2 {
                let Some((rgb, at, was_present)) = expect[p] else { continue };
                let plane = if p == 0 { "foreground" } else { "background" };
                let got = buf.palette.get_rgb(idx[p] as u32);
                if idx[p] >= now.len() || got != rgb {
                    return Verdict::fail(
                        format!("parser.{kind}.index_does_not_resolve"),
                        format!("op {n} {:?}: {plane} index {} resolves to {got:?}, requested {rgb:?} (palette length {})", bytes, idx[p], now.len()),
                    );
                }
                if was_present && idx[p] != at {
                    return Verdict::fail(
                        format!("parser.{kind}.present_colour_not_reused"),
                        format!("op {n} {:?}: {rgb:?} was present at index {at}; the {plane} got index {} (palette length {} -> {})", bytes, idx[p], model.len(), now.len()),
                    );
                }
                want[p] = Some(rgb);
                last_handed = idx[p];
                handed.retain(|(r, _)| *r != rgb);
                handed.push((rgb, idx[p]));
            }
        }
        model = now;
    }
    let _ = prints;
    let class = if rerequests > 0 {
        "colour_requested_again_after_its_entry_was_redefined"
    } else {
        match (appended > 0, reused > 0, oscs > 0) {
            (true, true, true) => "append+reuse+osc4",
            (true, true, false) => "append+reuse",
            (_, _, true) => "osc4_without_both_insert_kinds",
            _ => "few_inserts",
        }
    };
    Verdict::pass(appended > 0 && reused > 0 && oscs > 0, class)
}

// ------------------------------------------------------------------------------------------------------------
// (b) palette files
// ------------------------------------------------------------------------------------------------------------

#[derive(Clone, Copy, Debug, Hash, PartialEq, Eq, Serialize, Deserialize)]
enum Fmt {
    Hex,
    Pal,
    Gpl,
    Ice,
    Txt,
}

impl Fmt {
    fn engine(self) -> PaletteFormat {
        match self {
            Fmt::Hex => PaletteFormat::Hex,
            Fmt::Pal => PaletteFormat::Pal,
            Fmt::Gpl => PaletteFormat::Gpl,
            Fmt::Ice => PaletteFormat::Ice,
            Fmt::Txt => PaletteFormat::Txt,
        }
    }
    fn tag(self) -> &'static str {
        match self {
            Fmt::Hex => "hex",
            Fmt::Pal => "pal",
            Fmt::Gpl => "gpl",
            Fmt::Ice => "ice",
            Fmt::Txt => "txt",
        }
    }
}

#[derive(Clone, Debug, Hash, Serialize, Deserialize)]
struct FileCase {
    fmt: Fmt,
    title: String,
    author: String,
    description: String,
    /// colour and optional colour name
    colors: Vec<(Rgb, Option<String>)>,
}

fn printable() -> impl Strategy<Value = String> {
    let ch = prop_oneof![
        10 => (0x20u8..=0x7E).prop_map(char::from),
        1 => prop::sample::select(vec!['é', 'ß', '→', '٣']),
    ];
    prop::collection::vec(ch, 1..=24).prop_map(|v| v.into_iter().collect::<String>())
}

/// A line of the exported file of a small decoy palette: every keyword, marker and line shape an exporter ever writes
/// becomes a candidate text for title / author / description / colour names without being listed by hand.
#[derive(Clone, Debug)]
struct Decoy {
    fmt: Fmt,
    /// 0..=3 colours
    n: u8,
    named: bool,
    /// bit 0 title, bit 1 author, bit 2 description non-empty
    meta: u8,
    /// which line of the export
    line: u16,
    /// None: verbatim; Some(v): every run of decimal digits replaced by v
    numbers: Option<u8>,
    /// drop a leading '#' / ';' marker
    strip_marker: bool,
}

fn decoy_line(d: &Decoy) -> String {
    const COLS: [Rgb; 3] = [(1, 2, 3), (170, 187, 204), (255, 255, 255)];
    let cols: Vec<Color> = COLS[..(d.n as usize).min(3)]
        .iter()
        .map(|c| {
            let mut col = Color::new(c.0, c.1, c.2);
            if d.named {
                col.name = Some("n".to_string());
            }
            col
        })
        .collect();
    let mut pal = Palette::from_slice(&cols);
    if d.meta & 1 != 0 {
        pal.title = "t".into();
    }
    if d.meta & 2 != 0 {
        pal.author = "a".into();
    }
    if d.meta & 4 != 0 {
        pal.description = "d".into();
    }
    let bytes = pal.export_palette(&d.fmt.engine());
    let text = String::from_utf8_lossy(&bytes).into_owned();
    let lines: Vec<&str> = text.lines().collect();
    if lines.is_empty() {
        return String::new();
    }
    let mut line = lines[pick(d.line, lines.len())].to_string();
    if let Some(v) = d.numbers {
        let mut out = String::new();
        let mut in_run = false;
        for ch in line.chars() {
            if ch.is_ascii_digit() {
                if !in_run {
                    out.push_str(&v.to_string());
                    in_run = true;
                }
            } else {
                in_run = false;
                out.push(ch);
            }
        }
        line = out;
    }
    if d.strip_marker && (line.starts_with('#') || line.starts_with(';')) {
        line.remove(0);
    }
    line
}

fn decoy() -> impl Strategy<Value = String> {
    (
        prop::sample::select(vec![Fmt::Hex, Fmt::Pal, Fmt::Gpl, Fmt::Ice, Fmt::Txt]),
        0u8..=3,
        any::<bool>(),
        0u8..8,
        any::<u16>(),
        prop_oneof![2 => Just(None), 1 => (0u8..=12).prop_map(Some)],
        prop_oneof![3 => Just(false), 1 => Just(true)],
    )
        .prop_map(|(fmt, n, named, meta, line, numbers, strip_marker)| decoy_line(&Decoy { fmt, n, named, meta, line, numbers, strip_marker }))
}

/// SYNTAX SOUP: a short text assembled from the significant characters and token shapes of the palette syntaxes an importer
/// could plausibly accept (the five formats here, CSS / HTML colours, "r g b name" lists), in random combination, alone or
/// embedded in ordinary words. Not derived from what the exporters write today, so it also covers syntaxes an importer may learn.
fn soup_token() -> impl Strategy<Value = String> {
    let hex_run = (
        prop::sample::select(vec!["", "#", "0x", "$"]),
        prop_oneof![1 => Just(3usize), 3 => Just(6usize), 1 => Just(8usize)],
        prop::collection::vec(prop::sample::select("0123456789abcdefABCDEF".chars().collect::<Vec<char>>()), 8),
    )
        .prop_map(|(pre, n, digits)| format!("{pre}{}", digits[..n].iter().collect::<String>()));
    let triple = (any::<Rgb>(), prop::sample::select(vec![" ", ",", "\t", ", ", "  ", ";", "/"]))
        .prop_map(|(c, sep)| format!("{}{sep}{}{sep}{}", c.0, c.1, c.2));
    let keyword = (
        prop::sample::select(vec!["", "#", ";"]),
        prop::sample::select(vec![
            "Name", "Palette Name", "Author", "Description", "Colors", "Columns", "Color", "GIMP Palette", "JASC-PAL", "ICE Palette", "paint.net Palette File", "RIFF", "PAL", "rgb",
            "hex", "0100", "16", "256",
        ]),
        prop::sample::select(vec!["", ":", ": ", "=", " ="]),
    )
        .prop_map(|(m, k, c)| format!("{m}{k}{c}"));
    prop_oneof![
        3 => prop::sample::select(vec!["#", ";", ":", "=", ",", "\t", "$", "0x", " ", "  ", "/", "(", ")"]).prop_map(str::to_string),
        4 => hex_run,
        3 => triple,
        1 => any::<Rgb>().prop_map(|c| format!("rgb({},{},{})", c.0, c.1, c.2)),
        1 => any::<Rgb>().prop_map(|c| format!("{} {} {} name", c.0, c.1, c.2)),
        1 => any::<Rgb>().prop_map(|c| format!("{:3} {:3} {:3}\tUntitled", c.0, c.1, c.2)),
        3 => keyword,
        1 => (0u32..=300).prop_map(|n| n.to_string()),
        3 => prop::sample::select(vec!["Shades", "of", "my", "sunset", "v2", "by", "x"]).prop_map(str::to_string),
    ]
}

fn soup() -> impl Strategy<Value = String> {
    (
        prop::collection::vec((soup_token(), prop::sample::select(vec!["", " ", " ", "\t", ",", ":", "="])), 1..=5),
        prop::sample::select(vec!["", "", " ", "\t", "  "]),
        prop::sample::select(vec!["", "", " ", "\t"]),
    )
        .prop_map(|(toks, lead, trail)| {
            let mut s = String::from(lead);
            for (i, (t, sep)) in toks.iter().enumerate() {
                if i > 0 {
                    s.push_str(sep);
                }
                s.push_str(t);
            }
            s.push_str(trail);
            s
        })
}

/// single-line text: empty, arbitrary printable, a hand-listed string that looks like a line of one of the formats,
/// a line taken from the export of a decoy palette (same or another format), or syntax soup
fn text() -> impl Strategy<Value = String> {
    prop_oneof![
        3 => Just(String::new()),
        5 => printable(),
        1 => prop::sample::select(vec![" ", "1 2 3", "12 34 56 x", "aabbcc", "FFAABBCC", "#Name: x", "#Description: y", ";Palette Name: z", "GIMP Palette", "JASC-PAL"])
            .prop_map(str::to_string),
        2 => decoy(),
        4 => soup(),
    ]
}

fn file_case() -> impl Strategy<Value = FileCase> {
    let fmt = prop::sample::select(vec![Fmt::Hex, Fmt::Pal, Fmt::Gpl, Fmt::Ice, Fmt::Txt]);
    let name = prop_oneof![3 => Just(None), 2 => text().prop_map(Some)];
    let any_rgb = prop_oneof![1 => rgb(), 2 => any::<Rgb>()];
    let colors = prop_oneof![
        4 => prop::collection::vec((any_rgb.clone(), name.clone()), 0..=16),
        2 => prop::collection::vec((any_rgb, name), 0..=256),
    ];
    (fmt, text(), text(), text(), colors).prop_map(|(fmt, title, author, description, colors)| FileCase { fmt, title, author, description, colors })
}

fn check_file(c: &FileCase) -> Verdict {
    let cols: Vec<Color> = c
        .colors
        .iter()
        .map(|(rgb, name)| {
            let mut col = Color::new(rgb.0, rgb.1, rgb.2);
            col.name = name.clone();
            col
        })
        .collect();
    let mut pal = Palette::from_slice(&cols);
    pal.title = c.title.clone();
    pal.author = c.author.clone();
    pal.description = c.description.clone();
    let want: Vec<Rgb> = c.colors.iter().map(|(rgb, _)| *rgb).collect();
    if rgbs(&pal) != want {
        return Verdict::fail("files.palette_differs_from_given_colours", "Palette::from_slice does not hold the given colours");
    }
    let f = c.fmt.tag();
    // Gpl writes the description into every colour line, so its emptiness is part of the input class there
    let cls = if c.fmt == Fmt::Gpl { if c.description.is_empty() { "|description=empty" } else { "|description=nonempty" } } else { "" };
    let bytes = pal.export_palette(&c.fmt.engine());
    let loaded = match Palette::load_palette(&c.fmt.engine(), &bytes) {
        Ok(p) => p,
        Err(e) => {
            return Verdict::fail(format!("file_roundtrip.load_error|fmt={f}{cls}"), format!("load_palette rejects the exported file: {e}; file: {:?}", head(&bytes)));
        }
    };
    let got = rgbs(&loaded);
    if got.len() != want.len() {
        let sub = if got.is_empty() {
            "none_loaded"
        } else if got.len() < want.len() {
            "colours_lost"
        } else {
            "colours_invented"
        };
        return Verdict::fail(
            format!("file_roundtrip.colour_count.{sub}|fmt={f}{cls}"),
            format!("exported {} colours, loaded {}; file starts: {:?}", want.len(), got.len(), head(&bytes)),
        );
    }
    if let Some(i) = (0..want.len()).find(|i| got[*i] != want[*i]) {
        return Verdict::fail(
            format!("file_roundtrip.colour_value|fmt={f}{cls}"),
            format!("colour {i}: exported {:?}, loaded {:?}; file starts: {:?}", want[i], got[i], head(&bytes)),
        );
    }
    let n = match want.len() {
        0 => "0",
        1..=16 => "1-16",
        _ => "17-256",
    };
    Verdict::pass(!want.is_empty(), format!("{f}|n={n}"))
}

fn head(b: &[u8]) -> String {
    String::from_utf8_lossy(&b[..b.len().min(160)]).into_owned()
}

// ------------------------------------------------------------------------------------------------------------
// (c) six-bit encodings
// ------------------------------------------------------------------------------------------------------------

fn six(i: u64) -> Rgb {
    (((i >> 12) & 63) as u8, ((i >> 6) & 63) as u8, (i & 63) as u8)
}

fn check_vga(x: &Rgb) -> Verdict {
    // two colours (x and its rotation), so that a slip between colour slots shows as well
    let file = [x.0, x.1, x.2, x.1, x.2, x.0];
    let p1 = Palette::from_63(&file);
    if p1.len() != 2 {
        return Verdict::fail("sixbit_vga.colour_count", format!("from_63 of 6 bytes gives {} colours", p1.len()));
    }
    let f1 = p1.as_vec_63();
    if f1.len() != 6 {
        return Verdict::fail("sixbit_vga.byte_count", format!("as_vec_63 of 2 colours gives {} bytes", f1.len()));
    }
    let p2 = Palette::from_63(&f1);
    if rgbs(&p1) != rgbs(&p2) {
        return Verdict::fail(
            "sixbit_vga.not_idempotent",
            format!("from_63({file:?}) = {:?}, but from_63(as_vec_63(that)) = {:?} (as_vec_63 = {f1:?})", rgbs(&p1), rgbs(&p2)),
        );
    }
    let f2 = p2.as_vec_63();
    if f2 != f1 {
        return Verdict::fail("sixbit_vga.bytes_not_idempotent", format!("second save {f2:?} differs from first save {f1:?} (input {file:?})"));
    }
    Verdict::pass(*x != (0, 0, 0), if f1[..] == file[..] { "file_bytes_reproduced" } else { "file_bytes_normalised" })
}

/// positions of the 16 text colours in the 64-entry EGA palette of an ADF file (VGA attribute-controller defaults)
const EGA_SLOTS: [usize; 16] = [0, 1, 2, 3, 4, 5, 20, 7, 56, 57, 58, 59, 60, 61, 62, 63];

/// the standard 64-colour EGA palette as 6-bit DAC values: bits 0..2 = B,G,R at 2/3, bits 3..5 = b,g,r at 1/3
fn ega64_sixbit() -> Vec<u8> {
    let mut v = Vec::with_capacity(192);
    for i in 0..64u8 {
        let lvl = |hi: u8, lo: u8| 42 * ((i >> hi) & 1) + 21 * ((i >> lo) & 1);
        v.push(lvl(2, 5));
        v.push(lvl(1, 4));
        v.push(lvl(0, 3));
    }
    v
}

#[derive(Clone, Debug, Hash, Serialize, Deserialize)]
struct EgaCase {
    rgb: Rgb,
    /// which of the 16 text colours carries the colour
    slot: u8,
}

fn check_ega(c: &EgaCase) -> Verdict {
    let mut file = ega64_sixbit();
    let o = 3 * EGA_SLOTS[c.slot as usize & 15];
    file[o] = c.rgb.0;
    file[o + 1] = c.rgb.1;
    file[o + 2] = c.rgb.2;
    let p1 = from_ega_data(&file);
    if p1.len() != 16 {
        return Verdict::fail("sixbit_ega.colour_count", format!("from_ega_data gives {} colours", p1.len()));
    }
    let f1 = to_ega_data(&p1);
    if f1.len() != 192 {
        return Verdict::fail("sixbit_ega.byte_count", format!("to_ega_data gives {} bytes", f1.len()));
    }
    let p2 = from_ega_data(&f1);
    if rgbs(&p1) != rgbs(&p2) {
        return Verdict::fail(
            "sixbit_ega.not_idempotent",
            format!("slot {} = {:?}: from_ega_data gives {:?}, after to_ega_data/from_ega_data {:?}", c.slot, c.rgb, rgbs(&p1), rgbs(&p2)),
        );
    }
    let f2 = to_ega_data(&p2);
    if f2 != f1 {
        return Verdict::fail("sixbit_ega.bytes_not_idempotent", format!("slot {} = {:?}: second save differs from first save", c.slot, c.rgb));
    }
    let same = EGA_SLOTS.iter().all(|s| f1[3 * s..3 * s + 3] == file[3 * s..3 * s + 3]);
    Verdict::pass(c.rgb != (0, 0, 0), if same { "text_colour_bytes_reproduced" } else { "text_colour_bytes_normalised" })
}

fn main() {
    let mut eng = Engine::new("C16");
    eng.rule(
        "ops: initial palette (empty | DOS default | 0..=40 | 0..=300 colours, components drawn 3:2 from {00,55,AA,FF} : any byte) and 1..=30 operations \
         (insert_color with/without name, insert_color_rgb, insert of a colour picked from the current palette, set_color/set_color_rgb up to 4 past the end, \
         set to a colour already present, lookups up to 4 past the end, and every other public mutator of Palette: set_color_hsl, set_color/set_color_rgb, resize, clear, push, \
         fill_to_16, get_checksum, the public title/author/description fields, clone, export+load as Hex - on a random slot or on the 'marked' slot; their own effect is adopted into the model, \
         index stability of everything they do not rewrite is asserted; mark = insert a present colour and remember slot+colour, insert-marked, insert of a colour a mutator displaced earlier); \
         1 group in 13 is the block mark / unrelated insert / mutator on the marked slot / unrelated insert / insert-marked; sequences are cut at 30 operations; \
         operations that would grow the palette beyond 300 colours are skipped. \
         Non-trivial: the sequence performed at least one insert that appended AND at least one insert that found its colour present. \
         parser_ops: one ansi::Parser + 80x25 terminal buffer + caret, 1..=40 sequences out of {SGR 38/48;2;r;g;b (single, fg+bg pair, 'the same RGB again'), \
         CTerm CSI 0/1;r;g;b t, SGR 38/48;5;n, SGR 30-37/40-47/90-97/100-107, OSC 4;k;rgb:rr/gg/bb[;k;rgb:..] ST with k = the index just handed out | one handed out earlier | an existing index | 0..15 | \
         a new index | any 0..=255, RIS, a letter}; RGB from a pool of 8 (8/9) or arbitrary. Non-trivial: at least one request that appended, one that found its colour present and one OSC 4. \
         files: format in {Hex,Pal,Gpl,Ice,Txt}, 0..=16 or 0..=256 colours with optional names, title/author/description/name texts each empty (3/15), \
         printable single-line text (5/15), a hand-listed string imitating a line of one of the formats (1/15), a line of the exported file of a decoy palette \
         (0..=3 colours, any of the five formats, verbatim or with every number replaced, with or without its leading #/; marker) (2/15), or syntax soup (4/15): \
         1..=5 tokens out of {# ; : = , tab $ 0x / ( ), hex runs of 3/6/8 digits bare or behind # 0x $, decimal triples separated by blank/comma/tab/;//, rgb(r,g,b), \
         'r g b name', header keywords of all formats with/without marker and colon, numbers, ordinary words} joined by nothing/blank/tab/,/:/=, optional leading/trailing blanks. Non-trivial: at least one colour. \
         sixbit_vga / sixbit_ega: every (r,g,b) in 0..64^3 once; the EGA part puts the colour into text-colour slot (i ^ i>>6 ^ i>>12) & 15 of the standard \
         64-entry EGA table. Non-trivial: colour other than (0,0,0). Distinct by case hash.",
    );
    eng.assume("the model is a Vec<(u8,u8,u8)>: insert = first position of an equal RGB triple (names ignored) or push; set = overwrite, extending the vector; entries created by set_color in the gap between the old end and the index are adopted from the engine, not asserted");
    eng.assume("parser_ops: OSC 4 grammar as read from parsers/ansi/osc.rs (ESC ] 4 {;k;rgb:hh/hh/hh} ESC \\, k <= 255); entries an OSC 4 names are adopted from the engine, all others must keep their value; nothing is claimed across RIS; SGR 38/48;5;n requests xterm colour n (16 system colours, 6x6x6 cube 0/95/135/175/215/255, greys 8+10k)");
    eng.assume("only the RGB sequence of an imported file is compared (the statement does not claim title/author/description/colour names survive)");
    eng.assume("EGA slot positions 0,1,2,3,4,5,20,7,56..63 (VGA attribute-controller defaults) are where an ADF file keeps its 16 text colours");

    eng.generated(PartCfg::new("ops", 300_000, 3_000_000), || ops_case().boxed(), check_ops);
    eng.generated(PartCfg::new("parser_ops", 60_000, 600_000), || parser_case().boxed(), check_parser);
    eng.generated(PartCfg::new("files", 100_000, 1_000_000), || file_case().boxed(), check_file);
    eng.enumerated(PartCfg::new("sixbit_vga", 0, 0).exhaustive(true), 64 * 64 * 64, six, check_vga);
    eng.enumerated(
        PartCfg::new("sixbit_ega", 0, 0).exhaustive(true),
        64 * 64 * 64,
        |i| EgaCase { rgb: six(i), slot: ((i ^ (i >> 6) ^ (i >> 12)) & 15) as u8 },
        check_ega,
    );
    eng.run();
}
