//! C14 — sixel images are complete rectangles and appear in arrival order.
use icy_engine::{ansi, Buffer, BufferParser, Caret, Position, Rectangle, Sixel, Size};
use icyv::proptest::prelude::*;
use icyv::util::Bytes;
use icyv::{Engine, PartCfg, Verdict};
use serde::{Deserialize, Serialize};
use std::collections::HashMap;
use std::time::{Duration, Instant};

// ---------------------------------------------------------------------------------------------
// part 1: payload -> rectangle, pixel-exact against a reference rasteriser

#[derive(Clone, Debug, Hash, Serialize, Deserialize)]
struct Payload {
    data: Bytes,
}

#[derive(Clone, Debug)]
enum Item {
    Data(Vec<u8>),
    Repeat(u32, u8),
    Cr,
    Lf,
    Select(u32),
    Define(u32, u8, u8, u8),
    Raster(u32, u32, u32, u32),
    /// raster attribute with any number of parameters (the short forms a;b / a;b;h and over-long ones)
    RasterN(Vec<u32>),
}

fn render_items(items: &[Item]) -> Vec<u8> {
    let mut out = Vec::new();
    for it in items {
        match it {
            Item::Data(d) => out.extend_from_slice(d),
            Item::Repeat(n, c) => {
                out.extend_from_slice(format!("!{n}").as_bytes());
                out.push(*c);
            }
            Item::Cr => out.push(b'$'),
            Item::Lf => out.push(b'-'),
            Item::Select(c) => out.extend_from_slice(format!("#{c}").as_bytes()),
            Item::Define(c, r, g, b) => out.extend_from_slice(format!("#{c};2;{r};{g};{b}").as_bytes()),
            Item::Raster(a, b, w, h) => out.extend_from_slice(format!("\"{a};{b};{w};{h}").as_bytes()),
            Item::RasterN(v) => {
                out.push(b'"');
                out.extend_from_slice(v.iter().map(|n| n.to_string()).collect::<Vec<_>>().join(";").as_bytes());
            }
        }
    }
    out
}

fn payloads() -> BoxedStrategy<Payload> {
    let item = prop_oneof![
        8 => proptest::collection::vec(0x3Fu8..=0x7E, 1..=14).prop_map(Item::Data),
        3 => (prop_oneof![3 => 0u32..=12, 1 => 0u32..=500], 0x3Fu8..=0x7E).prop_map(|(n, c)| Item::Repeat(n, c)),
        2 => Just(Item::Cr),
        3 => Just(Item::Lf),
        2 => (0u32..=17).prop_map(Item::Select),
        2 => (0u32..=17, 0u8..=100, 0u8..=100, 0u8..=100).prop_map(|(c, r, g, b)| Item::Define(c, r, g, b)),
    ];
    let raster = prop_oneof![
        3 => Just(None),
        2 => (0u32..=2, 0u32..=2, 0u32..=40, 0u32..=40).prop_map(|(a, b, w, h)| Some(Item::Raster(a, b, w, h))),
    ];
    // a third of the payloads force a later band that is wider than the first one
    let widen = prop_oneof![2 => Just(0usize), 1 => 1usize..=30];
    // where the raster attribute goes: 0 = in front (the modelled case), 1 = at a random position, 2 = as the very last token
    let raster_pos = prop_oneof![4 => Just(0u8), 1 => Just(1u8), 1 => Just(2u8)];
    // further raster attributes anywhere in the payload, with 0..=6 parameters (hosts re-declare the size; the short forms change one dimension only)
    let extra_rasters = prop_oneof![
        5 => Just(Vec::new()),
        3 => proptest::collection::vec((proptest::collection::vec(prop_oneof![2 => 0u32..=3, 3 => 0u32..=40], 0..=6), any::<u16>()), 1..=3),
    ];
    (raster, proptest::collection::vec(item, 0..=14), widen, raster_pos, any::<u16>(), extra_rasters)
        .prop_map(|(r, mut items, widen, rpos, ridx, extra)| {
            for (ps, at) in extra {
                let at = icyv::util::pick(at, items.len() + 1);
                items.insert(at, Item::RasterN(ps));
            }
            let mut all = Vec::new();
            let mut late = None;
            if let Some(r) = r {
                match rpos {
                    0 => all.push(r),
                    1 => {
                        let at = icyv::util::pick(ridx, items.len() + 1);
                        items.insert(at, r);
                    }
                    _ => late = Some(r),
                }
            }
            all.append(&mut items);
            if widen > 0 {
                all.push(Item::Lf);
                all.push(Item::Data(vec![b'~'; widen]));
            }
            if let Some(r) = late {
                all.push(r);
            }
            Payload { data: Bytes(render_items(&all)) }
        })
        .boxed()
}

/// Reference rasteriser written from the sixel definition (DEC STD 070 / VT330 manual): returns the set pixels
/// with the colour register that painted them last, the registers defined with RGB so far at paint time, and the
/// raster attribute if the payload starts with exactly one.
struct RefPic {
    pixels: HashMap<(i32, i32), Option<(u8, u8, u8)>>,
    raster: Option<(u32, u32)>,
    bands_touched: i32,
    rasters_seen: usize,
    raster_first: bool,
}

fn reference(data: &[u8]) -> Option<RefPic> {
    let mut pic = RefPic { pixels: HashMap::new(), raster: None, bands_touched: 0, rasters_seen: 0, raster_first: false };
    let mut defined: HashMap<u32, (u8, u8, u8)> = HashMap::new();
    let mut cur: u32 = 0;
    let (mut x, mut band) = (0i32, 0i32);
    let mut height_limit: Option<i32> = None;
    let mut i = 0;
    let num = |i: &mut usize| -> Vec<u32> {
        let mut v = vec![];
        let mut curv: Option<u32> = None;
        while *i < data.len() && (data[*i].is_ascii_digit() || data[*i] == b';') {
            if data[*i] == b';' {
                v.push(curv.take().unwrap_or(0));
                curv = Some(0);
            } else {
                curv = Some(curv.unwrap_or(0).saturating_mul(10).saturating_add((data[*i] - b'0') as u32));
            }
            *i += 1;
        }
        if let Some(c) = curv {
            v.push(c);
        }
        v
    };
    let mut paint = |pic: &mut RefPic, x: i32, band: i32, c: u8, cur: u32, defined: &HashMap<u32, (u8, u8, u8)>, limit: Option<i32>| {
        let mask = c - b'?';
        pic.bands_touched = pic.bands_touched.max(band + 1);
        for bit in 0..6 {
            if mask & (1 << bit) != 0 {
                let y = band * 6 + bit;
                if let Some(l) = limit {
                    if y >= l {
                        continue;
                    }
                }
                pic.pixels.insert((x, y), defined.get(&cur).copied());
            }
        }
    };
    let mut first_token = true;
    while i < data.len() {
        let c = data[i];
        match c {
            b'#' => {
                i += 1;
                let v = num(&mut i);
                match v.len() {
                    0 => {}
                    1 => cur = v[0],
                    5 if v[1] == 2 => {
                        cur = v[0];
                        defined.insert(cur, ((v[2] * 255 / 100) as u8, (v[3] * 255 / 100) as u8, (v[4] * 255 / 100) as u8));
                    }
                    _ => return None, // outside the generated grammar
                }
            }
            b'!' => {
                i += 1;
                let v = num(&mut i);
                if v.len() != 1 || i >= data.len() {
                    return None;
                }
                let ch = data[i];
                i += 1;
                if !(0x3F..=0x7E).contains(&ch) {
                    return None;
                }
                for _ in 0..v[0] {
                    paint(&mut pic, x, band, ch, cur, &defined, height_limit);
                    x += 1;
                }
            }
            b'$' => {
                x = 0;
                i += 1;
            }
            b'-' => {
                x = 0;
                band += 1;
                i += 1;
            }
            b'"' => {
                i += 1;
                let v = num(&mut i);
                if v.len() != 4 {
                    return None;
                }
                pic.rasters_seen += 1;
                if first_token {
                    pic.raster_first = true;
                    pic.raster = Some((v[2], v[3]));
                    height_limit = Some(v[3] as i32);
                } else {
                    return None; // a raster attribute after data re-sizes the picture: not modelled
                }
            }
            0x3F..=0x7E => {
                paint(&mut pic, x, band, c, cur, &defined, height_limit);
                x += 1;
                i += 1;
            }
            _ => return None,
        }
        first_token = false;
    }
    Some(pic)
}

fn check_payload(p: &Payload) -> Verdict {
    let text = String::from_utf8_lossy(&p.data).to_string();
    let res = Sixel::parse_from(Position::default(), 1, 2, [0, 0, 0, 0], &text);
    let s = match res {
        Ok(s) => s,
        Err(_) => return Verdict::pass(false, "decode_err"),
    };
    let (w, h) = (s.get_width(), s.get_height());
    if w < 0 || h < 0 {
        return Verdict::fail("rect.negative_size", format!("width {w} height {h}"));
    }
    let want = 4usize * w as usize * h as usize;
    if s.picture_data.len() != want {
        return Verdict::fail("rect.len_ne_4wh", format!("picture_data.len() = {} but width {w} x height {h} x 4 = {want}", s.picture_data.len()));
    }
    let Some(r) = reference(&p.data) else {
        return Verdict::pass(false, "rect_only");
    };
    if let Some((rw, rh)) = r.raster {
        if h != rh as i32 {
            return Verdict::fail("raster.height", format!("declared raster height {rh}, decoded height {h}"));
        }
        if rh > 0 && w < rw as i32 {
            return Verdict::fail("raster.width", format!("declared raster width {rw}, decoded width {w}"));
        }
    }
    // every reference pixel lies inside the rectangle and is opaque with the right colour
    for ((x, y), col) in &r.pixels {
        if *x >= w || *y >= h {
            return Verdict::fail("pixels.set_pixel_outside_rectangle", format!("pixel ({x},{y}) painted by the payload, picture is {w}x{h}"));
        }
        let o = ((*y * w + *x) * 4) as usize;
        let px = &s.picture_data[o..o + 4];
        if px[3] != 0xFF {
            return Verdict::fail("pixels.painted_pixel_transparent", format!("pixel ({x},{y}) should be opaque, got {px:?}"));
        }
        if let Some((cr, cg, cb)) = col {
            if (px[0], px[1], px[2]) != (*cr, *cg, *cb) {
                return Verdict::fail("pixels.colour", format!("pixel ({x},{y}) = {px:?}, register defined as ({cr},{cg},{cb})"));
            }
        }
    }
    // and nothing else is opaque
    let mut opaque = 0usize;
    for y in 0..h {
        for x in 0..w {
            let o = ((y * w + x) * 4) as usize;
            if s.picture_data[o + 3] != 0 {
                opaque += 1;
                if !r.pixels.contains_key(&(x, y)) {
                    return Verdict::fail("pixels.unpainted_pixel_opaque", format!("pixel ({x},{y}) is opaque but no sixel painted it"));
                }
            }
        }
    }
    let _ = opaque;
    // non-trivial: rows of unequal painted length, or a raster attribute that differs from the data extent
    let mut row_extent: HashMap<i32, i32> = HashMap::new();
    for (x, y) in r.pixels.keys() {
        let e = row_extent.entry(*y).or_insert(0);
        *e = (*e).max(x + 1);
    }
    let extents: std::collections::HashSet<i32> = row_extent.values().copied().collect();
    let ragged = extents.len() > 1 || (!row_extent.is_empty() && (row_extent.len() as i32) < h);
    let raster_differs = r.raster.map(|(rw, rh)| rw as i32 != extents.iter().copied().max().unwrap_or(0) || rh as i32 != r.bands_touched * 6).unwrap_or(false);
    Verdict::pass(ragged || raster_differs, if r.raster.is_some() { "with_raster" } else { "no_raster" })
}

// ---------------------------------------------------------------------------------------------
// part 2: completion orders x poll placements against a FIFO model

#[derive(Clone, Debug, Hash, Serialize, Deserialize)]
struct Img {
    col: u8,
    row: u8,
    /// width in pixels, height in sixel bands
    w: u8,
    bands: u8,
    /// the payload holds a character that is no sixel data: the decode fails (the poll that meets it returns Err and loses only this image)
    #[serde(default)]
    bad: bool,
}

#[derive(Clone, Debug, Hash, Serialize, Deserialize)]
struct Placement {
    imgs: Vec<Img>,
}

fn placements() -> BoxedStrategy<Placement> {
    // positions on a coarse grid so that images frequently cover each other
    let img = (0u8..=3, 0u8..=2, prop_oneof![Just(8u8), Just(16), Just(24), Just(40)], 1u8..=6, prop::bool::weighted(0.12)).prop_map(|(c, r, w, b, bad)| Img { col: c * 2, row: r * 2, w, bands: b, bad });
    // half of the later images are made to cover an earlier one exactly or generously (same origin, size >=)
    let cover = (any::<bool>(), any::<u16>(), 0u8..=2, 0u8..=2);
    proptest::collection::vec((img, cover), 1..=MAX_IMGS)
        .prop_map(|v| {
            let mut imgs: Vec<Img> = Vec::new();
            for (im, (do_cover, which, dw, db)) in v {
                if do_cover && !imgs.is_empty() {
                    let t = imgs[icyv::util::pick(which, imgs.len())].clone();
                    imgs.push(Img { col: t.col, row: t.row, w: t.w.saturating_add(dw * 8), bands: (t.bands + db).min(8), bad: false });
                } else {
                    imgs.push(im);
                }
            }
            Placement { imgs }
        })
        .boxed()
}

const MAX_IMGS: usize = 4;

fn placements_seq() -> BoxedStrategy<Placement> {
    let img = (0u8..=5, 0u8..=3, prop_oneof![Just(8u8), Just(16), Just(24), Just(40)], 1u8..=6, prop::bool::weighted(0.12)).prop_map(|(c, r, w, b, bad)| Img { col: c * 2, row: r * 2, w, bands: b, bad });
    let cover = (any::<bool>(), any::<u16>(), 0u8..=2, 0u8..=2);
    proptest::collection::vec((img, cover), 1..=7)
        .prop_map(|v| {
            let mut imgs: Vec<Img> = Vec::new();
            for (im, (do_cover, which, dw, db)) in v {
                if do_cover && !imgs.is_empty() {
                    let t = imgs[icyv::util::pick(which, imgs.len())].clone();
                    imgs.push(Img { col: t.col, row: t.row, w: t.w.saturating_add(dw * 8), bands: (t.bands + db).min(8), bad: false });
                } else {
                    imgs.push(im);
                }
            }
            Placement { imgs }
        })
        .boxed()
}

/// images arrive one after the other (no gate): each decode is awaited, then one poll; the screen list must follow the model
fn check_sequential(p: &Placement) -> Verdict {
    let mut buf = Buffer::create((80, 25));
    buf.is_terminal_buffer = true;
    let mut caret = Caret::default();
    let mut parser = ansi::Parser::default();
    let font = buf.get_font_dimensions();
    let mut screen: Vec<usize> = Vec::new();
    let mut removed_non_newest = false;
    for (j, img) in p.imgs.iter().enumerate() {
        feed(&mut buf, &mut caret, &mut parser, &format!("\x1b[{};{}H\x1bPq{}\x1b\\", img.row as u32 + 1, img.col as u32 + 1, img_payload(img)));
        let t = Instant::now();
        while buf.sixel_threads.front().map(|h| !h.is_finished()).unwrap_or(false) {
            if t.elapsed() > Duration::from_secs(10) {
                return Verdict::discard("decode did not finish within 10 s");
            }
            std::thread::yield_now();
        }
        let res = buf.update_sixel_threads();
        if res.is_err() != img.bad {
            return Verdict::fail("sequential.poll_result", format!("image {j} (undecodable: {}): update_sixel_threads returned {res:?}", img.bad));
        }
        if !img.bad {
            let r = rect_of(img, font);
            let before = screen.clone();
            screen.retain(|old| !r.contains_rect(&rect_of(&p.imgs[*old], font)));
            if before.len() != screen.len() && before.last().map(|l| screen.contains(l)).unwrap_or(false) && screen.len() >= 2 {
                removed_non_newest = true;
            }
            screen.push(j);
        }
        let want: Vec<(i32, i32, i32, i32)> = screen.iter().map(|i| (p.imgs[*i].col as i32, p.imgs[*i].row as i32, p.imgs[*i].w as i32, p.imgs[*i].bands as i32 * 6)).collect();
        let got = screen_of(&buf);
        if got != want {
            let mut gs = got.clone();
            let mut ws = want.clone();
            gs.sort_unstable();
            ws.sort_unstable();
            let clause = if gs == ws { "sequential.order_of_survivors" } else { "sequential.lost_or_duplicate_or_not_replaced" };
            return Verdict::fail(clause, format!("after image {j} of {:?}: screen {got:?}, model {want:?} (x,y,w,h in arrival order)", p.imgs));
        }
    }
    Verdict::pass(removed_non_newest, format!("k={}{}", p.imgs.len(), if removed_non_newest { "+covered_older_with_survivors" } else { "" }))
}

fn img_payload(i: &Img) -> String {
    let mut s = String::new();
    if i.bad {
        return format!("!{}~ ~", i.w);
    }
    for b in 0..i.bands {
        if b > 0 {
            s.push('-');
        }
        s.push_str(&format!("!{}~", i.w));
    }
    s
}

fn feed(buf: &mut Buffer, caret: &mut Caret, parser: &mut ansi::Parser, s: &str) {
    for c in s.chars() {
        let _ = parser.print_char(buf, 0, caret, c);
    }
}

fn permutations(k: usize) -> Vec<Vec<usize>> {
    fn rec(cur: &mut Vec<usize>, used: &mut Vec<bool>, k: usize, out: &mut Vec<Vec<usize>>) {
        if cur.len() == k {
            out.push(cur.clone());
            return;
        }
        for i in 0..k {
            if !used[i] {
                used[i] = true;
                cur.push(i);
                rec(cur, used, k, out);
                cur.pop();
                used[i] = false;
            }
        }
    }
    let mut out = Vec::new();
    rec(&mut Vec::new(), &mut vec![false; k], k, &mut out);
    out
}

fn rect_of(img: &Img, font: Size) -> Rectangle {
    Rectangle { start: Position::new(img.col as i32 * font.width, img.row as i32 * font.height), size: Size::new(img.w as i32, img.bands as i32 * 6) }
}

/// model of one poll: move the maximal finished prefix of the queue to the screen, applying the containment rule
fn model_poll(queue: &mut std::collections::VecDeque<usize>, finished: &[bool], screen: &mut Vec<usize>, p: &Placement, font: Size) -> bool {
    while let Some(&front) = queue.front() {
        if !finished[front] {
            break;
        }
        queue.pop_front();
        if p.imgs[front].bad {
            // a failed decode is reported by this poll; everything behind it stays queued for the next poll
            return true;
        }
        let r = rect_of(&p.imgs[front], font);
        screen.retain(|old| !r.contains_rect(&rect_of(&p.imgs[*old], font)));
        screen.push(front);
    }
    false
}

fn screen_of(buf: &Buffer) -> Vec<(i32, i32, i32, i32)> {
    buf.layers[0].sixels.iter().map(|s| (s.position.x, s.position.y, s.get_width(), s.get_height())).collect()
}

fn check_schedules(p: &Placement) -> Verdict {
    let k = p.imgs.len();
    let perms = permutations(k);
    let mut schedules = 0u64;
    let mut out_of_order = 0u64;
    for perm in &perms {
        for poll_mask in 0..(1u32 << k) {
            schedules += 1;
            if perm.iter().enumerate().any(|(i, j)| i != *j) {
                out_of_order += 1;
            }
            // fresh terminal, all decodes held at the gate
            icy_engine::verif::sixel_gate_arm(true);
            let mut buf = Buffer::create((80, 25));
            buf.is_terminal_buffer = true;
            let mut caret = Caret::default();
            let mut parser = ansi::Parser::default();
            let font = buf.get_font_dimensions();
            let mut tickets = Vec::new();
            for img in &p.imgs {
                feed(&mut buf, &mut caret, &mut parser, &format!("\x1b[{};{}H\x1bPq{}\x1b\\", img.row as u32 + 1, img.col as u32 + 1, img_payload(img)));
                match icy_engine::verif::sixel_last_ticket() {
                    Some(t) => tickets.push(t),
                    None => return Verdict::discard("no ticket taken: hook not compiled in?"),
                }
            }
            if buf.sixel_threads.len() != k {
                icy_engine::verif::sixel_gate_arm(false);
                return Verdict::fail("schedule.queue_len", format!("{} decodes in flight after {k} sixel sequences", buf.sixel_threads.len()));
            }
            let mut queue: std::collections::VecDeque<usize> = (0..k).collect();
            let mut finished = vec![false; k];
            let mut screen: Vec<usize> = Vec::new();
            let mut popped = 0usize;
            // a poll while everything is held must not block and must deliver nothing
            let t = Instant::now();
            let _ = buf.update_sixel_threads();
            if t.elapsed() > Duration::from_secs(2) {
                icy_engine::verif::sixel_gate_arm(false);
                return Verdict::fail("schedule.poll_blocked", "update_sixel_threads took > 2 s while decodes were held".to_string());
            }
            if !buf.layers[0].sixels.is_empty() {
                icy_engine::verif::sixel_gate_arm(false);
                return Verdict::fail("schedule.delivered_unfinished", "an image appeared although no decode had finished".to_string());
            }
            for (step, &j) in perm.iter().enumerate() {
                icy_engine::verif::sixel_gate_release(tickets[j]);
                // wait until decode j has finished (its handle is at index j - popped while it is still queued)
                let t = Instant::now();
                loop {
                    if j < popped {
                        break;
                    }
                    match buf.sixel_threads.get(j - popped) {
                        Some(h) if h.is_finished() => break,
                        Some(_) => {}
                        None => break,
                    }
                    if t.elapsed() > Duration::from_secs(8) {
                        icy_engine::verif::sixel_gate_arm(false);
                        return Verdict::discard("released decode did not finish within 8 s");
                    }
                    std::thread::yield_now();
                }
                finished[j] = true;
                // after the last release poll until the queue is drained (a poll stops at a failed decode)
                let polls_here = if step + 1 == k { k + 1 } else { usize::from(poll_mask & (1 << step) != 0) };
                for poll_no in 0..polls_here {
                    if poll_no > 0 && queue.is_empty() && buf.sixel_threads.is_empty() {
                        break;
                    }
                    let before = queue.len();
                    let t = Instant::now();
                    let r = buf.update_sixel_threads();
                    if t.elapsed() > Duration::from_secs(2) {
                        icy_engine::verif::sixel_gate_arm(false);
                        return Verdict::fail("schedule.poll_blocked", "update_sixel_threads took > 2 s while other decodes were held".to_string());
                    }
                    let met_failed_decode = model_poll(&mut queue, &finished, &mut screen, p, font);
                    if r.is_err() != met_failed_decode {
                        icy_engine::verif::sixel_gate_arm(false);
                        return Verdict::fail(
                            "schedule.poll_result",
                            format!("completion order {perm:?}, poll mask {poll_mask:#b}: update_sixel_threads returned {r:?}, the model {} a failed decode in this poll", if met_failed_decode { "meets" } else { "does not meet" }),
                        );
                    }
                    popped += before - queue.len();
                    let want: Vec<(i32, i32, i32, i32)> = screen.iter().map(|i| (p.imgs[*i].col as i32, p.imgs[*i].row as i32, p.imgs[*i].w as i32, p.imgs[*i].bands as i32 * 6)).collect();
                    let got = screen_of(&buf);
                    if got != want {
                        icy_engine::verif::sixel_gate_arm(false);
                        let clause = if got.len() > want.len() && poll_not_prefix(&got, &want) {
                            "schedule.out_of_order_delivery"
                        } else if got.len() != want.len() {
                            "schedule.lost_or_duplicate"
                        } else {
                            "schedule.order_mismatch"
                        };
                        return Verdict::fail(
                            clause,
                            format!("completion order {perm:?}, poll mask {poll_mask:#b}, after releasing image {j}: screen {got:?}, FIFO model {want:?} (x,y,w,h)"),
                        );
                    }
                    if buf.sixel_threads.len() != queue.len() {
                        icy_engine::verif::sixel_gate_arm(false);
                        return Verdict::fail("schedule.queue_mismatch", format!("{} decodes still queued, model has {}", buf.sixel_threads.len(), queue.len()));
                    }
                }
            }
            // everything delivered exactly once, in arrival order semantics
            if !buf.sixel_threads.is_empty() {
                icy_engine::verif::sixel_gate_arm(false);
                return Verdict::fail("schedule.not_drained", "decodes left in the queue after all finished and a poll".to_string());
            }
        }
    }
    icy_engine::verif::sixel_gate_arm(false);
    let _ = schedules;
    let covers = {
        let font = Size::new(8, 16);
        let mut any = false;
        for a in 0..k {
            for b in 0..a {
                if rect_of(&p.imgs[a], font).contains_rect(&rect_of(&p.imgs[b], font)) {
                    any = true;
                }
            }
        }
        any
    };
    Verdict::pass(out_of_order > 0, format!("k={k}{}", if covers { "+covering" } else { "" }))
}

fn poll_not_prefix(_got: &[(i32, i32, i32, i32)], _want: &[(i32, i32, i32, i32)]) -> bool {
    true
}

fn main() {
    let mut eng = Engine::new("C14");
    eng.rule(
        "payloads: sixel grammar (data ?..~, !n repeats n<=500, $, -, #c, #c;2;r;g;b, raster \"a;b;w;h (in front, at a random position or as the last token) with sizes smaller/equal/larger than the data, in 3 of 8 payloads 1..=3 further raster attributes with 0..=6 parameters at random positions (rectangle law only: the reference models a single leading raster); a third force a later band wider than \
         the first) -> Sixel::parse_from: picture_data.len()==4*w*h, declared raster height == h and width <= w, pixel-exact agreement with a reference rasteriser (painted <=> opaque, RGB of defined registers). \
         Non-trivial payload: painted rows of unequal length or raster != data extent. schedules: k<=4 images (grid positions so that images cover each other) held at the decode gate (hook), ALL k! completion \
         orders x ALL 2^k poll placements; after every poll layers[0].sixels must equal a FIFO-prefix model with the containment rule; polls must return within 2 s while decodes are held. \
         Non-trivial placement: k>=2 (some completion order differs from arrival order). sequential_arrival: up to 7 images arriving one after the other (half of them covering an earlier one), \
         poll after each, screen list compared with the model; non-trivial: an image covered an older one while a newer one survived. Distinct by case hash.",
    );
    eng.assume("completion orders are controlled at the granularity of 'decode finished' through the cfg(icy_engine_verif) gate at the start of each decode thread");
    eng.assume("reference rasteriser follows the DEC sixel definition; colours are compared only for registers the payload defines with RGB (0..=100 per channel)");
    eng.generated(PartCfg::new("payloads", 400_000, 12_000_000), payloads, check_payload);
    eng.generated(PartCfg::new("sequential_arrival", 12_000, 600_000), placements_seq, check_sequential);
    eng.generated_with_class(
        PartCfg::new("schedules", 300, 8_000).isolated().timeout_ms(120_000).hang_is_violation(true).shrink_budget(60),
        placements,
        check_schedules,
        |_| "poll_blocked_or_decode_stuck".to_string(),
    );
    eng.run();
}
